"""
CVSS v2 scoring reference model: the guide's equations (section 3.2) in exact rational
arithmetic, round-half-up to one decimal. Own constants (guide section 3.2.1-3.2.3).

Rounding of *negative* intermediates (the adjusted base score can be negative before the final
clamp) is not fixed by the guide; the model evaluates both readings (half away from zero, half
towards +infinity) and reports the set of admitted final values.
"""

from fractions import Fraction as F

W = {
    "AV": {"L": F("0.395"), "A": F("0.646"), "N": F("1.0")},
    "AC": {"H": F("0.35"), "M": F("0.61"), "L": F("0.71")},
    "Au": {"M": F("0.45"), "S": F("0.56"), "N": F("0.704")},
    "C": {"N": F(0), "P": F("0.275"), "C": F("0.660")},
    "I": {"N": F(0), "P": F("0.275"), "C": F("0.660")},
    "A": {"N": F(0), "P": F("0.275"), "C": F("0.660")},
    "E": {"U": F("0.85"), "POC": F("0.9"), "F": F("0.95"), "H": F(1), "ND": F(1)},
    "RL": {"OF": F("0.87"), "TF": F("0.90"), "W": F("0.95"), "U": F(1), "ND": F(1)},
    "RC": {"UC": F("0.90"), "UR": F("0.95"), "C": F(1), "ND": F(1)},
    "CDP": {"N": F(0), "L": F("0.1"), "LM": F("0.3"), "MH": F("0.4"), "H": F("0.5"), "ND": F(0)},
    "TD": {"N": F(0), "L": F("0.25"), "M": F("0.75"), "H": F(1), "ND": F(1)},
    "CR": {"L": F("0.5"), "M": F(1), "H": F("1.51"), "ND": F(1)},
    "IR": {"L": F("0.5"), "M": F(1), "H": F("1.51"), "ND": F(1)},
    "AR": {"L": F("0.5"), "M": F(1), "H": F("1.51"), "ND": F(1)},
}

TEMPORAL = ("E", "RL", "RC")
ENVIRONMENTAL = ("CDP", "TD", "CR", "IR", "AR")


def _floor(x):
    return x.numerator // x.denominator


def rnd(x, mode):
    """Round x (Fraction) to tenths, ties half-up. mode 0: ties away from zero; 1: towards +inf.
    Returns an int number of tenths."""
    t = x * 10
    if mode == 1 or t >= 0:
        return _floor(t + F(1, 2))
    return -_floor(-t + F(1, 2))


def _base_raw(impact, expl):
    f = F(0) if impact == 0 else F("1.176")
    return (F("0.6") * impact + F("0.4") * expl - F("1.5")) * f


_memo_base = {}
_memo_adj = {}
_memo_t = {}
_memo_e = {}


def _base(bkey):
    r = _memo_base.get(bkey)
    if r is None:
        av, ac, au, c, i, a = bkey
        expl = 20 * W["AV"][av] * W["AC"][ac] * W["Au"][au]
        c, i, a = W["C"][c], W["I"][i], W["A"][a]
        impact = F("10.41") * (1 - (1 - c) * (1 - i) * (1 - a))
        raw = _base_raw(impact, expl)
        b0, b1 = rnd(raw, 0), rnd(raw, 1)
        if max(b0, 0) != max(b1, 0):
            raise AssertionError("base score ambiguous under negative-tie rounding: %r" % (bkey,))
        r = _memo_base[bkey] = max(0, b0)
    return r


def _adj(akey):
    """Adjusted base (tenths, NOT clamped) for both rounding readings."""
    r = _memo_adj.get(akey)
    if r is None:
        av, ac, au, c, i, a, cr, ir, ar = akey
        expl = 20 * W["AV"][av] * W["AC"][ac] * W["Au"][au]
        c, i, a = W["C"][c], W["I"][i], W["A"][a]
        adj = min(F(10), F("10.41") * (1 - (1 - c * W["CR"][cr]) * (1 - i * W["IR"][ir])
                                       * (1 - a * W["AR"][ar])))
        raw = _base_raw(adj, expl)
        r = _memo_adj[akey] = (rnd(raw, 0), rnd(raw, 1))
    return r


def _temporal(tenths, tkey, mode):
    k = (tenths, tkey, mode)
    r = _memo_t.get(k)
    if r is None:
        e, rl, rc = tkey
        r = _memo_t[k] = rnd(F(tenths, 10) * W["E"][e] * W["RL"][rl] * W["RC"][rc], mode)
    return r


def _env(at, cdp, td, mode):
    k = (at, cdp, td, mode)
    r = _memo_e.get(k)
    if r is None:
        atf = F(at, 10)
        r = _memo_e[k] = max(0, rnd((atf + (10 - atf) * W["CDP"][cdp]) * W["TD"][td], mode))
    return r


def scores(m):
    """m: metric -> value for every metric present in the vector (absent = not in m).
    Returns (base, temporal_set, env_set): tenths as ints; temporal/env are None when undefined,
    else a frozenset of admitted values (one element unless the negative-tie ambiguity bites)."""
    g = m.get
    bkey = (m["AV"], m["AC"], m["Au"], m["C"], m["I"], m["A"])
    base = _base(bkey)
    tkey = (g("E", "ND"), g("RL", "ND"), g("RC", "ND"))
    temporal = None
    if tkey != ("ND", "ND", "ND"):
        temporal = frozenset([max(0, _temporal(base, tkey, 0))])
    env = None
    cdp, td, cr, ir, ar = g("CDP", "ND"), g("TD", "ND"), g("CR", "ND"), g("IR", "ND"), g("AR", "ND")
    if not (cdp == "ND" and td == "ND" and cr == "ND" and ir == "ND" and ar == "ND"):
        ab = _adj(bkey + (cr, ir, ar))
        e0 = _env(_temporal(ab[0], tkey, 0), cdp, td, 0)
        e1 = _env(_temporal(ab[1], tkey, 1), cdp, td, 1)
        env = frozenset((e0, e1))
    return base, temporal, env


def as_floats(r):
    """Single-valued view: (base, temporal, env) as floats / None; sets collapsed when singleton."""
    base, t, e = r
    f = lambda s: None if s is None else sorted(x / 10.0 for x in s)
    return base / 10.0, f(t), f(e)
