"""
Validation of the reference models against artefacts neither I nor the library wrote: the
official-calculator / cvsslib vectors pinned under /verif/data/vectors. A disagreement here is a
defect of the *model* and aborts the run (exit 2), it is never reported as a violation.
"""

import ast
import os

from .. import core
from . import tables as T

DATA = os.path.join(core.VERIF, "data", "vectors")

FILES = {
    "2": ["vectors_simple2", "vectors_cvsslib2", "vectors_calculator2"],
    "3": ["vectors_simple3", "vectors_simple31", "vectors_cvsslib3", "vectors_calculator3"],
    "4": ["vectors_simple4", "vectors_security4", "vectors_supplemental4", "vectors_threat4"],
}


def load(major):
    """[(vector, tuple of expected scores)]"""
    out = []
    for name in FILES[major]:
        with open(os.path.join(DATA, name)) as f:
            for line in f:
                line = line.strip()
                if not line:
                    continue
                vec, exp = line.split(" - ")
                exp = ast.literal_eval(exp)
                if not isinstance(exp, tuple):
                    exp = (exp,)
                out.append((vec, exp))
    return out


def validate(major, model_scores):
    """model_scores(family, assignment) -> tuple; each slot None or a collection of admitted
    floats. Returns the number of official vectors the model reproduced."""
    n = 0
    for vec, exp in load(major):
        fam = T.family_of(int(major), vec)
        verdict, got = T.parse(fam, vec)
        if verdict != "ACCEPT":
            raise core.HarnessError("model rejects official vector %r: %s" % (vec, got))
        ms = model_scores(fam, dict(got))
        for slot, (e, m) in enumerate(zip(exp, ms)):
            if e is None:
                ok = m is None
            else:
                ok = m is not None and any(abs(float(e) - x) < 1e-9 for x in m)
            if not ok:
                raise core.HarnessError(
                    "reference model disagrees with official vector %r slot %d: official %r model %r"
                    % (vec, slot, e, m))
        n += 1
    return n
