"""
JSON key and value names per CVSS version, typed in from FIRST's JSON schemas / specifications.
admitted_keys(family, metric) -> set of key spellings; admitted_values(family, metric, value) ->
set of value spellings. Where the library and FIRST's v4.0 schema name the same thing differently
both spellings are admitted (the statement does not fix the spelling, C10 decides schema
conformance); the admitted sets of two different values of one metric are always disjoint.
"""

from . import tables as T

KEY2 = {"AV": "accessVector", "AC": "accessComplexity", "Au": "authentication",
        "C": "confidentialityImpact", "I": "integrityImpact", "A": "availabilityImpact",
        "E": "exploitability", "RL": "remediationLevel", "RC": "reportConfidence",
        "CDP": "collateralDamagePotential", "TD": "targetDistribution",
        "CR": "confidentialityRequirement", "IR": "integrityRequirement",
        "AR": "availabilityRequirement"}
VAL2 = {
    "AV": {"L": "LOCAL", "A": "ADJACENT_NETWORK", "N": "NETWORK"},
    "AC": {"H": "HIGH", "M": "MEDIUM", "L": "LOW"},
    "Au": {"M": "MULTIPLE", "S": "SINGLE", "N": "NONE"},
    "C": {"N": "NONE", "P": "PARTIAL", "C": "COMPLETE"},
    "E": {"U": "UNPROVEN", "POC": "PROOF_OF_CONCEPT", "F": "FUNCTIONAL", "H": "HIGH", "ND": "NOT_DEFINED"},
    "RL": {"OF": "OFFICIAL_FIX", "TF": "TEMPORARY_FIX", "W": "WORKAROUND", "U": "UNAVAILABLE",
           "ND": "NOT_DEFINED"},
    "RC": {"UC": "UNCONFIRMED", "UR": "UNCORROBORATED", "C": "CONFIRMED", "ND": "NOT_DEFINED"},
    "CDP": {"N": "NONE", "L": "LOW", "LM": "LOW_MEDIUM", "MH": "MEDIUM_HIGH", "H": "HIGH",
            "ND": "NOT_DEFINED"},
    "TD": {"N": "NONE", "L": "LOW", "M": "MEDIUM", "H": "HIGH", "ND": "NOT_DEFINED"},
    "CR": {"L": "LOW", "M": "MEDIUM", "H": "HIGH", "ND": "NOT_DEFINED"},
}
VAL2["I"] = VAL2["A"] = VAL2["C"]
VAL2["IR"] = VAL2["AR"] = VAL2["CR"]

KEY3 = {"AV": "attackVector", "AC": "attackComplexity", "PR": "privilegesRequired",
        "UI": "userInteraction", "S": "scope", "C": "confidentialityImpact",
        "I": "integrityImpact", "A": "availabilityImpact", "E": "exploitCodeMaturity",
        "RL": "remediationLevel", "RC": "reportConfidence", "CR": "confidentialityRequirement",
        "IR": "integrityRequirement", "AR": "availabilityRequirement",
        "MAV": "modifiedAttackVector", "MAC": "modifiedAttackComplexity",
        "MPR": "modifiedPrivilegesRequired", "MUI": "modifiedUserInteraction",
        "MS": "modifiedScope", "MC": "modifiedConfidentialityImpact",
        "MI": "modifiedIntegrityImpact", "MA": "modifiedAvailabilityImpact"}
VAL3 = {
    "AV": {"N": "NETWORK", "A": "ADJACENT_NETWORK", "L": "LOCAL", "P": "PHYSICAL"},
    "AC": {"L": "LOW", "H": "HIGH"},
    "PR": {"N": "NONE", "L": "LOW", "H": "HIGH"},
    "UI": {"N": "NONE", "R": "REQUIRED"},
    "S": {"U": "UNCHANGED", "C": "CHANGED"},
    "C": {"H": "HIGH", "L": "LOW", "N": "NONE"},
    "E": {"X": "NOT_DEFINED", "H": "HIGH", "F": "FUNCTIONAL", "P": "PROOF_OF_CONCEPT", "U": "UNPROVEN"},
    "RL": {"X": "NOT_DEFINED", "U": "UNAVAILABLE", "W": "WORKAROUND", "T": "TEMPORARY_FIX",
           "O": "OFFICIAL_FIX"},
    "RC": {"X": "NOT_DEFINED", "C": "CONFIRMED", "R": "REASONABLE", "U": "UNKNOWN"},
    "CR": {"X": "NOT_DEFINED", "H": "HIGH", "M": "MEDIUM", "L": "LOW"},
}
VAL3["I"] = VAL3["A"] = VAL3["C"]
VAL3["IR"] = VAL3["AR"] = VAL3["CR"]
for _m, _b in (("MAV", "AV"), ("MAC", "AC"), ("MPR", "PR"), ("MUI", "UI"), ("MS", "S"), ("MC", "C"),
               ("MI", "C"), ("MA", "C")):
    VAL3[_m] = dict(VAL3[_b], X="NOT_DEFINED")

# v4.0: (library spelling, FIRST schema spelling)
KEY4 = {
    "AV": ("attackVector",), "AC": ("attackComplexity",),
    "AT": ("attackRequirement", "attackRequirements"),
    "PR": ("privilegesRequired",), "UI": ("userInteraction",),
    "VC": ("vulnerableSystemImpactConfidentiality", "vulnConfidentialityImpact"),
    "VI": ("vulnerableSystemImpactIntegrity", "vulnIntegrityImpact"),
    "VA": ("vulnerableSystemImpactAvailability", "vulnAvailabilityImpact"),
    "SC": ("subsequentSystemImpactConfidentiality", "subConfidentialityImpact"),
    "SI": ("subsequentSystemImpactIntegrity", "subIntegrityImpact"),
    "SA": ("subsequentSystemImpactAvailability", "subAvailabilityImpact"),
    "E": ("exploitMaturity",),
    "CR": ("confidentialityRequirements", "confidentialityRequirement"),
    "IR": ("integrityRequirements", "integrityRequirement"),
    "AR": ("availabilityRequirements", "availabilityRequirement"),
    "MAV": ("modifiedAttackVector",), "MAC": ("modifiedAttackComplexity",),
    "MAT": ("modifiedAttackRequirement", "modifiedAttackRequirements"),
    "MPR": ("modifiedPrivilegesRequired",), "MUI": ("modifiedUserInteraction",),
    "MVC": ("modifiedVulnerableSystemImpactConfidentiality", "modifiedVulnConfidentialityImpact"),
    "MVI": ("modifiedVulnerableSystemImpactIntegrity", "modifiedVulnIntegrityImpact"),
    "MVA": ("modifiedVulnerableSystemImpactAvailability", "modifiedVulnAvailabilityImpact"),
    "MSC": ("modifiedSubsequentSystemImpactConfidentiality", "modifiedSubConfidentialityImpact"),
    "MSI": ("modifiedSubsequentSystemImpactIntegrity", "modifiedSubIntegrityImpact"),
    "MSA": ("modifiedSubsequentSystemImpactAvailability", "modifiedSubAvailabilityImpact"),
    "S": ("safety", "Safety"), "AU": ("automatable", "Automatable"), "R": ("recovery", "Recovery"),
    "V": ("valueDensity",), "RE": ("vulnerabilityResponseEffort",), "U": ("providerUrgency",),
}
_HLN = {"H": ("HIGH",), "L": ("LOW",), "N": ("NONE",)}
_SUB = {"H": ("HIGH",), "L": ("LOW",), "N": ("NONE", "NEGLIGIBLE"), "S": ("SAFETY",)}
VAL4 = {
    "AV": {"N": ("NETWORK",), "A": ("ADJACENT", "ADJACENT_NETWORK"), "L": ("LOCAL",), "P": ("PHYSICAL",)},
    "AC": {"L": ("LOW",), "H": ("HIGH",)},
    "AT": {"N": ("NONE",), "P": ("PRESENT",)},
    "PR": {"N": ("NONE",), "L": ("LOW",), "H": ("HIGH",)},
    "UI": {"N": ("NONE",), "P": ("PASSIVE",), "A": ("ACTIVE",)},
    "VC": _HLN, "VI": _HLN, "VA": _HLN, "SC": _SUB, "SI": _SUB, "SA": _SUB,
    "E": {"A": ("ATTACKED",), "P": ("PROOF_OF_CONCEPT", "POC"), "U": ("UNREPORTED",)},
    "CR": {"H": ("HIGH",), "M": ("MEDIUM",), "L": ("LOW",)},
    "S": {"N": ("NEGLIGIBLE",), "P": ("PRESENT",)},
    "AU": {"N": ("NO",), "Y": ("YES",)},
    "R": {"A": ("AUTOMATIC",), "U": ("USER",), "I": ("IRRECOVERABLE", "INRECOVERABLE")},
    "V": {"D": ("DIFFUSE",), "C": ("CONCENTRATED",)},
    "RE": {"L": ("LOW",), "M": ("MODERATE",), "H": ("HIGH",)},
    "U": {"Clear": ("CLEAR",), "Green": ("GREEN",), "Amber": ("AMBER",), "Red": ("RED",)},
}
VAL4["IR"] = VAL4["AR"] = VAL4["CR"]
for _m in T.V4_MODIFIED:
    VAL4[_m] = VAL4[_m[1:]]

VERSION = {"2": ("2.0",), "3.0": ("3.0",), "3.1": ("3.1",), "4.0": ("4.0", "4")}


def admitted_keys(fam, metric):
    if fam == "2":
        return (KEY2[metric],)
    if fam == "4.0":
        return KEY4[metric]
    return (KEY3[metric],)


def admitted_values(fam, metric, value):
    if value == T.ND[fam]:
        return ("NOT_DEFINED",)
    if fam == "2":
        return (VAL2[metric][value],)
    if fam == "4.0":
        return VAL4[metric][value]
    return (VAL3[metric][value],)


def effective(fam, got, metric):
    """Value the JSON field of `metric` must name: the stated value; for a Not Defined modified
    metric its base metric's value; Not Defined otherwise."""
    nd = T.ND[fam]
    v = got.get(metric, nd)
    if v == nd and metric in T.MODIFIED[fam]:
        return got[metric[1:]]
    return v


def groups(fam):
    """{group name: (metrics, score key, severity key or None)} for the removable groups."""
    if fam == "2":
        return {"temporal": (T.V2_TEMPORAL, "temporalScore", None),
                "environmental": (T.V2_ENV, "environmentalScore", None)}
    if fam == "4.0":
        return {"temporal": (T.V4_THREAT, "threatScore", "threatSeverity"),
                "environmental": (T.V4_ENV, "environmentalScore", "environmentalSeverity")}
    return {"temporal": (T.V3_TEMPORAL, "temporalScore", "temporalSeverity"),
            "environmental": (T.V3_ENV, "environmentalScore", "environmentalSeverity")}


def selfcheck():
    for fam in T.FAMILIES:
        for m, vals in T.METRICS[fam].items():
            seen = {}
            for v in vals:
                for name in admitted_values(fam, m, v):
                    assert name not in seen, (fam, m, v, name)
                    seen[name] = v
            assert admitted_keys(fam, m)
        keys = [k for m in T.METRICS[fam] for k in admitted_keys(fam, m)]
        assert len(keys) == len(set(keys)), fam
    return True


selfcheck()
