"""
CVSS v3.0 / v3.1 scoring reference model: the specification's equations (section 8.1-8.3 of
3.0, 7.1-7.3 of 3.1) in exact rational arithmetic; Roundup = smallest one-decimal number >= x.
Own constants (spec section 8.4 / 7.4). All results are integer tenths.
"""

from fractions import Fraction as F

W = {
    "AV": {"N": F("0.85"), "A": F("0.62"), "L": F("0.55"), "P": F("0.2")},
    "AC": {"L": F("0.77"), "H": F("0.44")},
    "UI": {"N": F("0.85"), "R": F("0.62")},
    "CIA": {"H": F("0.56"), "L": F("0.22"), "N": F(0)},
    "E": {"X": F(1), "H": F(1), "F": F("0.97"), "P": F("0.94"), "U": F("0.91")},
    "RL": {"X": F(1), "U": F(1), "W": F("0.97"), "T": F("0.96"), "O": F("0.95")},
    "RC": {"X": F(1), "C": F(1), "R": F("0.96"), "U": F("0.92")},
    "REQ": {"X": F(1), "H": F("1.5"), "M": F(1), "L": F("0.5")},
}
PR = {"U": {"N": F("0.85"), "L": F("0.62"), "H": F("0.27")},
      "C": {"N": F("0.85"), "L": F("0.68"), "H": F("0.5")}}


def roundup(x):
    """ceil(x*10) as int tenths"""
    t = x * 10
    return -((-t.numerator) // t.denominator)


_mb = {}
_mt = {}
_mi = {}
_me = {}
_mm = {}


def _base(k):
    r = _mb.get(k)
    if r is None:
        av, ac, pr, ui, s, c, i, a = k
        iss = 1 - (1 - W["CIA"][c]) * (1 - W["CIA"][i]) * (1 - W["CIA"][a])
        if s == "U":
            impact = F("6.42") * iss
        else:
            impact = F("7.52") * (iss - F("0.029")) - F("3.25") * (iss - F("0.02")) ** 15
        expl = F("8.22") * W["AV"][av] * W["AC"][ac] * PR[s][pr] * W["UI"][ui]
        if impact <= 0:
            r = 0
        elif s == "U":
            r = roundup(min(impact + expl, F(10)))
        else:
            r = roundup(min(F("1.08") * (impact + expl), F(10)))
        _mb[k] = r
    return r


def _times_temporal(tenths, tk):
    k = (tenths, tk)
    r = _mt.get(k)
    if r is None:
        e, rl, rc = tk
        r = _mt[k] = roundup(F(tenths, 10) * W["E"][e] * W["RL"][rl] * W["RC"][rc])
    return r


def _mimpact(k):
    r = _mi.get(k)
    if r is None:
        minor, ms, mc, mi, ma, cr, ir, ar = k
        miss = min(1 - (1 - W["CIA"][mc] * W["REQ"][cr]) * (1 - W["CIA"][mi] * W["REQ"][ir])
                   * (1 - W["CIA"][ma] * W["REQ"][ar]), F("0.915"))
        if ms == "U":
            r = F("6.42") * miss
        elif minor == 0:
            r = F("7.52") * (miss - F("0.029")) - F("3.25") * (miss - F("0.02")) ** 15
        else:
            r = F("7.52") * (miss - F("0.029")) - F("3.25") * (miss * F("0.9731") - F("0.02")) ** 13
        _mi[k] = r
    return r


def _mexpl(k):
    r = _me.get(k)
    if r is None:
        mav, mac, mpr, mui, ms = k
        r = _me[k] = F("8.22") * W["AV"][mav] * W["AC"][mac] * PR[ms][mpr] * W["UI"][mui]
    return r


def _mbase(ik, ek):
    k = (ik, ek)
    r = _mm.get(k)
    if r is None:
        mi, me = _mimpact(ik), _mexpl(ek)
        if mi <= 0:
            r = None  # environmental score is 0
        elif ik[1] == "U":
            r = roundup(min(mi + me, F(10)))
        else:
            r = roundup(min(F("1.08") * (mi + me), F(10)))
        _mm[k] = r
    return r


def scores(minor, m):
    """minor: 0 or 1; m: metric -> value for metrics present. Returns (base, temporal, env) tenths."""
    g = m.get
    base = _base((m["AV"], m["AC"], m["PR"], m["UI"], m["S"], m["C"], m["I"], m["A"]))
    tk = (g("E", "X"), g("RL", "X"), g("RC", "X"))
    temporal = _times_temporal(base, tk)

    def eff(mod, basem):
        v = g(mod, "X")
        return m[basem] if v == "X" else v

    ms = eff("MS", "S")
    ik = (minor, ms, eff("MC", "C"), eff("MI", "I"), eff("MA", "A"),
          g("CR", "X"), g("IR", "X"), g("AR", "X"))
    ek = (eff("MAV", "AV"), eff("MAC", "AC"), eff("MPR", "PR"), eff("MUI", "UI"), ms)
    mb = _mbase(ik, ek)
    env = 0 if mb is None else _times_temporal(mb, tk)
    return base, temporal, env
