"""
Red Hat notation reference model: "<score>/<vector>".

classify_token(tok) -> ("NUM", Fraction) | ("NOTNUM", None) | ("FUZZY", float-or-None)
  NUM:    a plain decimal numeral (optional sign, digits, optional fraction / exponent), no blanks
  NOTNUM: text no reasonable reading takes for a number
  FUZZY:  spellings whose numeric-ness the statement leaves to the implementation's number parser
          (blank-padded numerals, nan/inf, overflowing exponents, digit separators, non-ASCII digits)
"""

import re
from fractions import Fraction

from . import tables as T

NUM = re.compile(r"^[+-]?(\d+(\.\d*)?|\.\d+)([eE][+-]?\d+)?$")


def classify_token(tok):
    if NUM.match(tok) and tok.isascii():
        digits = re.sub(r"[eE].*$", "", tok).replace(".", "").lstrip("+-0")
        if len(digits) > 15:     # more significant digits than a double holds: value as the parser sees it
            try:
                return "FUZZY", float(tok)
            except (ValueError, OverflowError):
                return "FUZZY", None
        mant = tok
        exp = 0
        m = re.search(r"[eE]([+-]?\d+)$", tok)
        if m:
            exp = int(m.group(1))
            mant = tok[:m.start()]
        if abs(exp) > 50:  # over/underflows any binary float: value as the float parser sees it
            try:
                return "FUZZY", float(tok)
            except (ValueError, OverflowError):
                return "FUZZY", None
        return "NUM", Fraction(mant) * (Fraction(10) ** exp)
    s = tok.strip()
    if s != tok and s and NUM.match(s) and s.isascii():
        return "FUZZY", float(s)
    low = s.lower().lstrip("+-")
    if low in ("nan", "inf", "infinity"):
        return "FUZZY", None
    if s and re.match(r"^[+-]?[\d_.eE+-]+$", s) and "_" in s:
        try:                       # PEP 515 digit separators: numeric on 3.6+, value as parsed
            return "FUZZY", float(s)
        except ValueError:
            return "FUZZY", None
    if s and not s.isascii():
        try:
            return "FUZZY", float(s)
        except ValueError:
            return "NOTNUM", None
    return "NOTNUM", None


def classify(major, text, base_tenths_of):
    """Returns the set of admitted outcomes for from_rh_vector(text) of class `major`:
    elements are "ACCEPT", "RHMALFORMED", "MISMATCH", "MALFORMED", "MANDATORY".
    base_tenths_of(family, assignment) -> model base score in tenths."""
    if "/" not in text:
        return set(["RHMALFORMED"])
    tok, vec = text.split("/", 1)
    kind, val = classify_token(tok)
    verdict = T.classify_class(major, vec)
    if kind == "NOTNUM":
        if verdict == "ACCEPT":
            return set(["RHMALFORMED"])
        return set(["RHMALFORMED", verdict])
    if verdict != "ACCEPT":
        if kind == "FUZZY":
            return set(["RHMALFORMED", verdict])
        return set([verdict])
    fam = T.family_of(major, vec)
    base = base_tenths_of(fam, dict(T.parse(fam, vec)[1]))
    if kind == "NUM":
        return set(["ACCEPT"]) if val == Fraction(base, 10) else set(["MISMATCH"])
    # FUZZY
    if val is not None and val == val and val == base / 10.0:
        return set(["ACCEPT", "RHMALFORMED"])
    return set(["RHMALFORMED", "MISMATCH"])
