"""
CVSS v4.0 scoring reference model: specification section 8.2 (macrovector, lookup, interpolation
by severity distance) in exact integer/rational arithmetic. Nothing is imported from /repo.

Pinned data: the 270-row lookup table (data/cvss4_lookup.json, the official cvss_lookup.js values),
the per-metric severity levels (in 0.1 steps) and the depth ("maxSeverity") table of the
specification. The highest-severity vectors of every equivalence level are *derived* here from
the EQ definitions (Pareto-maximal members of the level) and the derived depth (largest distance
inside the level + 1) must equal the pinned one - checked at import (selfcheck()).
"""

import itertools
import json
import os
from fractions import Fraction as F

HERE = os.path.dirname(os.path.dirname(os.path.dirname(os.path.abspath(__file__))))
with open(os.path.join(HERE, "data", "cvss4_lookup.json")) as _f:
    LOOKUP = dict((k, int(round(v * 10))) for k, v in json.load(_f)["lookup"].items())  # tenths

# severity level of each value, 0 = most severe, in steps of 0.1 (spec 8.2, "severity distance")
LEVEL = {
    "AV": {"N": 0, "A": 1, "L": 2, "P": 3},
    "PR": {"N": 0, "L": 1, "H": 2},
    "UI": {"N": 0, "P": 1, "A": 2},
    "AC": {"L": 0, "H": 1},
    "AT": {"N": 0, "P": 1},
    "VC": {"H": 0, "L": 1, "N": 2},
    "VI": {"H": 0, "L": 1, "N": 2},
    "VA": {"H": 0, "L": 1, "N": 2},
    "SC": {"H": 1, "L": 2, "N": 3},
    "SI": {"S": 0, "H": 1, "L": 2, "N": 3},
    "SA": {"S": 0, "H": 1, "L": 2, "N": 3},
    "CR": {"H": 0, "M": 1, "L": 2},
    "IR": {"H": 0, "M": 1, "L": 2},
    "AR": {"H": 0, "M": 1, "L": 2},
}

# depth of each level ("maxSeverity" of the specification / reference implementation)
DEPTH = {
    "eq1": {0: 1, 1: 4, 2: 5},
    "eq2": {0: 1, 1: 2},
    "eq36": {(0, 0): 7, (0, 1): 6, (1, 0): 8, (1, 1): 8, (2, 1): 10},
    "eq4": {0: 6, 1: 5, 2: 4},
}

G1 = ("AV", "PR", "UI")
G2 = ("AC", "AT")
G36 = ("VC", "VI", "VA", "CR", "IR", "AR")
G4 = ("SC", "SI", "SA")


def eq1(av, pr, ui):
    if av == "N" and pr == "N" and ui == "N":
        return 0
    if (av == "N" or pr == "N" or ui == "N") and av != "P":
        return 1
    return 2


def eq2(ac, at):
    return 0 if (ac == "L" and at == "N") else 1


def eq3(vc, vi, va):
    if vc == "H" and vi == "H":
        return 0
    if vc == "H" or vi == "H" or va == "H":
        return 1
    return 2


def eq4(sc, si, sa):
    if si == "S" or sa == "S":
        return 0
    if sc == "H" or si == "H" or sa == "H":
        return 1
    return 2


def eq5(e):
    return {"A": 0, "P": 1, "U": 2}[e]


def eq6(vc, vi, va, cr, ir, ar):
    if (cr == "H" and vc == "H") or (ir == "H" and vi == "H") or (ar == "H" and va == "H"):
        return 0
    return 1


def _group_table(metrics, levelfn):
    """For a group of metrics: {values tuple: (level, distance)} with distance = severity distance
    from the level's highest-severity vector(s) that dominate the member."""
    doms = [sorted(LEVEL[m], key=LEVEL[m].get) for m in metrics]
    members = {}
    for vals in itertools.product(*doms):
        members.setdefault(levelfn(*vals), []).append(vals)
    lv = lambda vals: tuple(LEVEL[m][v] for m, v in zip(metrics, vals))
    table, maxima_of, depth_of = {}, {}, {}
    for level, mem in members.items():
        lvs = dict((v, lv(v)) for v in mem)
        dominates = lambda a, b: all(x <= y for x, y in zip(lvs[a], lvs[b]))
        maxima = [a for a in mem if not any(b != a and dominates(b, a) for b in mem)]
        sums = set(sum(lvs[a]) for a in maxima)
        if len(sums) != 1:
            raise AssertionError("maxima of %s level %r differ in level-sum" % (metrics, level))
        top = sums.pop()
        for v in mem:
            doms_v = [a for a in maxima if dominates(a, v)]
            if not doms_v:
                raise AssertionError("member %r of level %r dominated by no maximum" % (v, level))
            table[v] = (level, sum(lvs[v]) - top)
        maxima_of[level] = maxima
        depth_of[level] = max(t[1] for v, t in table.items() if t[0] == level) + 1
    return table, maxima_of, depth_of


T1, MAX1, D1 = _group_table(G1, eq1)
T2, MAX2, D2 = _group_table(G2, eq2)
T36, MAX36, D36 = _group_table(G36, lambda vc, vi, va, cr, ir, ar: (eq3(vc, vi, va),
                                                                    eq6(vc, vi, va, cr, ir, ar)))
T4, MAX4, D4 = _group_table(G4, eq4)


def selfcheck():
    assert D1 == DEPTH["eq1"], D1
    assert D2 == DEPTH["eq2"], D2
    assert D36 == DEPTH["eq36"], D36
    assert D4 == DEPTH["eq4"], D4
    assert len(LOOKUP) == 270
    # every macrovector that can occur is in the table, and no inversion along any EQ step
    for a, b, (c, f), d, e in itertools.product(range(3), range(2), sorted(DEPTH["eq36"]), range(3),
                                               range(3)):
        k = "%d%d%d%d%d%d" % (a, b, c, d, e, f)
        assert k in LOOKUP, k
        for lower in _lowers(k):
            for l in lower[1]:
                assert LOOKUP[l] <= LOOKUP[k], (k, l)
    return True


def _lowers(k):
    """[(eq name, [existing next-lower macrovectors])] for macrovector string k."""
    a, b, c, d, e, f = (int(x) for x in k)
    mk = lambda *v: "%d%d%d%d%d%d" % v
    out = [("eq1", [mk(a + 1, b, c, d, e, f)]), ("eq2", [mk(a, b + 1, c, d, e, f)])]
    if (c, f) == (0, 0):
        j = [mk(a, b, 0, d, e, 1), mk(a, b, 1, d, e, 0)]
    elif (c, f) in ((0, 1), (1, 0)):
        j = [mk(a, b, 1, d, e, 1)]
    elif (c, f) == (1, 1):
        j = [mk(a, b, 2, d, e, 1)]
    else:
        j = []
    out.append(("eq36", j))
    out.append(("eq4", [mk(a, b, c, d + 1, e, f)]))
    out.append(("eq5", [mk(a, b, c, d, e + 1, f)]))
    return [(n, [x for x in l if x in LOOKUP]) for n, l in out]


_MOD = ["AV", "AC", "AT", "PR", "UI", "VC", "VI", "VA", "SC", "SI", "SA"]


def effective(m):
    """Effective values used by scoring, from the metrics present in the vector."""
    e = {}
    for b in _MOD:
        v = m.get("M" + b, "X")
        e[b] = m[b] if v == "X" else v
    for r in ("CR", "IR", "AR"):
        v = m.get(r, "X")
        e[r] = "H" if v == "X" else v
    v = m.get("E", "X")
    e["E"] = "A" if v == "X" else v
    return e


_final = {}


def score_effective(e):
    """e: effective assignment (15 metrics). Returns tenths (int)."""
    if all(e[k] == "N" for k in ("VC", "VI", "VA", "SC", "SI", "SA")):
        return 0
    l1, d1 = T1[(e["AV"], e["PR"], e["UI"])]
    l2, d2 = T2[(e["AC"], e["AT"])]
    (l3, l6), d36 = T36[(e["VC"], e["VI"], e["VA"], e["CR"], e["IR"], e["AR"])]
    l4, d4 = T4[(e["SC"], e["SI"], e["SA"])]
    l5 = eq5(e["E"])
    key = (l1, l2, l3, l4, l5, l6, d1, d2, d36, d4)
    r = _final.get(key)
    if r is None:
        k = "%d%d%d%d%d%d" % (l1, l2, l3, l4, l5, l6)
        value = LOOKUP[k]
        dist = {"eq1": F(d1, DEPTH["eq1"][l1]), "eq2": F(d2, DEPTH["eq2"][l2]),
                "eq36": F(d36, DEPTH["eq36"][(l3, l6)]), "eq4": F(d4, DEPTH["eq4"][l4]),
                "eq5": F(0)}
        total, n = F(0), 0
        for name, lows in _lowers(k):
            if not lows:
                continue
            n += 1
            total += (value - max(LOOKUP[l] for l in lows)) * dist[name]
        x = F(value) - (total / n if n else 0)
        x = min(F(100), max(F(0), x))
        t = x + F(1, 2)
        r = _final[key] = t.numerator // t.denominator
    return r


def score(m):
    return score_effective(effective(m))


selfcheck()
