"""Qualitative severity rating scales (own table). Scores are integer tenths or None."""


def v3(tenths):
    """v3.x / v4.0 specification section 5 / 6: None 0.0, Low 0.1-3.9, Medium 4.0-6.9,
    High 7.0-8.9, Critical 9.0-10.0."""
    if tenths == 0:
        return "None"
    if tenths <= 39:
        return "Low"
    if tenths <= 69:
        return "Medium"
    if tenths <= 89:
        return "High"
    return "Critical"


def v2(tenths):
    """NVD: Low 0.0-3.9, Medium 4.0-6.9, High 7.0-10.0; 'None' for an undefined score."""
    if tenths is None:
        return "None"
    if tenths <= 39:
        return "Low"
    if tenths <= 69:
        return "Medium"
    return "High"


def scale(family, tenths):
    return v2(tenths) if family == "2" else v3(tenths)
