"""
Reference grammar tables, typed in from the CVSS v2 guide, the v3.0/v3.1 and v4.0
specification documents. Nothing here is imported from /repo.

A "family" is one of "2", "3.0", "3.1", "4.0".
"""

from collections import OrderedDict

FAMILIES = ("2", "3.0", "3.1", "4.0")
PREFIX = {"2": "", "3.0": "CVSS:3.0/", "3.1": "CVSS:3.1/", "4.0": "CVSS:4.0/"}
CLASSNAME = {"2": "CVSS2", "3.0": "CVSS3", "3.1": "CVSS3", "4.0": "CVSS4"}
MAJOR = {"2": 2, "3.0": 3, "3.1": 3, "4.0": 4}
ND = {"2": "ND", "3.0": "X", "3.1": "X", "4.0": "X"}

# ---------------------------------------------------------------- v2 (guide section 2, 3.2)
V2 = OrderedDict([
    ("AV", ["L", "A", "N"]),
    ("AC", ["H", "M", "L"]),
    ("Au", ["M", "S", "N"]),
    ("C", ["N", "P", "C"]),
    ("I", ["N", "P", "C"]),
    ("A", ["N", "P", "C"]),
    ("E", ["U", "POC", "F", "H", "ND"]),
    ("RL", ["OF", "TF", "W", "U", "ND"]),
    ("RC", ["UC", "UR", "C", "ND"]),
    ("CDP", ["N", "L", "LM", "MH", "H", "ND"]),
    ("TD", ["N", "L", "M", "H", "ND"]),
    ("CR", ["L", "M", "H", "ND"]),
    ("IR", ["L", "M", "H", "ND"]),
    ("AR", ["L", "M", "H", "ND"]),
])
V2_BASE = ["AV", "AC", "Au", "C", "I", "A"]
V2_TEMPORAL = ["E", "RL", "RC"]
V2_ENV = ["CDP", "TD", "CR", "IR", "AR"]

# ---------------------------------------------------------------- v3.0 / v3.1 (spec sections 2-6)
V3 = OrderedDict([
    ("AV", ["N", "A", "L", "P"]),
    ("AC", ["L", "H"]),
    ("PR", ["N", "L", "H"]),
    ("UI", ["N", "R"]),
    ("S", ["U", "C"]),
    ("C", ["H", "L", "N"]),
    ("I", ["H", "L", "N"]),
    ("A", ["H", "L", "N"]),
    ("E", ["X", "H", "F", "P", "U"]),
    ("RL", ["X", "U", "W", "T", "O"]),
    ("RC", ["X", "C", "R", "U"]),
    ("CR", ["X", "H", "M", "L"]),
    ("IR", ["X", "H", "M", "L"]),
    ("AR", ["X", "H", "M", "L"]),
    ("MAV", ["X", "N", "A", "L", "P"]),
    ("MAC", ["X", "L", "H"]),
    ("MPR", ["X", "N", "L", "H"]),
    ("MUI", ["X", "N", "R"]),
    ("MS", ["X", "U", "C"]),
    ("MC", ["X", "H", "L", "N"]),
    ("MI", ["X", "H", "L", "N"]),
    ("MA", ["X", "H", "L", "N"]),
])
V3_BASE = ["AV", "AC", "PR", "UI", "S", "C", "I", "A"]
V3_TEMPORAL = ["E", "RL", "RC"]
V3_ENV = ["CR", "IR", "AR", "MAV", "MAC", "MPR", "MUI", "MS", "MC", "MI", "MA"]
V3_MODIFIED = ["MAV", "MAC", "MPR", "MUI", "MS", "MC", "MI", "MA"]

# ---------------------------------------------------------------- v4.0 (spec sections 2-5, 7)
# Listed in the order the specification (and the vectorString pattern of FIRST's schema)
# mandates: Base, Threat, Environmental, Supplemental.
V4 = OrderedDict([
    ("AV", ["N", "A", "L", "P"]),
    ("AC", ["L", "H"]),
    ("AT", ["N", "P"]),
    ("PR", ["N", "L", "H"]),
    ("UI", ["N", "P", "A"]),
    ("VC", ["H", "L", "N"]),
    ("VI", ["H", "L", "N"]),
    ("VA", ["H", "L", "N"]),
    ("SC", ["H", "L", "N"]),
    ("SI", ["H", "L", "N"]),
    ("SA", ["H", "L", "N"]),
    ("E", ["X", "A", "P", "U"]),
    ("CR", ["X", "H", "M", "L"]),
    ("IR", ["X", "H", "M", "L"]),
    ("AR", ["X", "H", "M", "L"]),
    ("MAV", ["X", "N", "A", "L", "P"]),
    ("MAC", ["X", "L", "H"]),
    ("MAT", ["X", "N", "P"]),
    ("MPR", ["X", "N", "L", "H"]),
    ("MUI", ["X", "N", "P", "A"]),
    ("MVC", ["X", "H", "L", "N"]),
    ("MVI", ["X", "H", "L", "N"]),
    ("MVA", ["X", "H", "L", "N"]),
    ("MSC", ["X", "H", "L", "N"]),
    ("MSI", ["X", "S", "H", "L", "N"]),
    ("MSA", ["X", "S", "H", "L", "N"]),
    ("S", ["X", "N", "P"]),
    ("AU", ["X", "N", "Y"]),
    ("R", ["X", "A", "U", "I"]),
    ("V", ["X", "D", "C"]),
    ("RE", ["X", "L", "M", "H"]),
    ("U", ["X", "Clear", "Green", "Amber", "Red"]),
])
V4_BASE = ["AV", "AC", "AT", "PR", "UI", "VC", "VI", "VA", "SC", "SI", "SA"]
V4_THREAT = ["E"]
V4_ENV = ["CR", "IR", "AR", "MAV", "MAC", "MAT", "MPR", "MUI", "MVC", "MVI", "MVA", "MSC", "MSI",
          "MSA"]
V4_MODIFIED = ["MAV", "MAC", "MAT", "MPR", "MUI", "MVC", "MVI", "MVA", "MSC", "MSI", "MSA"]
V4_SUPPLEMENTAL = ["S", "AU", "R", "V", "RE", "U"]

METRICS = {"2": V2, "3.0": V3, "3.1": V3, "4.0": V4}
MANDATORY = {"2": V2_BASE, "3.0": V3_BASE, "3.1": V3_BASE, "4.0": V4_BASE}
OPTIONAL = dict((f, [m for m in METRICS[f] if m not in MANDATORY[f]]) for f in FAMILIES)
TEMPORAL = {"2": V2_TEMPORAL, "3.0": V3_TEMPORAL, "3.1": V3_TEMPORAL}
ENVIRONMENTAL = {"2": V2_ENV, "3.0": V3_ENV, "3.1": V3_ENV}
MODIFIED = {"2": [], "3.0": V3_MODIFIED, "3.1": V3_MODIFIED, "4.0": V4_MODIFIED}

# Full metric names as the specifications print them (used to recognise interactive prompts).
# Only distinctness within a version matters; the dialogue harness matches on these loosely.

# ---------------------------------------------------------------- severity orders (least -> most severe)
ORDER2 = {
    "AV": ["L", "A", "N"], "AC": ["H", "M", "L"], "Au": ["M", "S", "N"],
    "C": ["N", "P", "C"], "I": ["N", "P", "C"], "A": ["N", "P", "C"],
    "E": ["U", "POC", "F", "H"], "RL": ["OF", "TF", "W", "U"], "RC": ["UC", "UR", "C"],
}
ORDER3 = {
    "AV": ["P", "L", "A", "N"], "AC": ["H", "L"], "PR": ["H", "L", "N"], "UI": ["R", "N"],
    "S": ["U", "C"], "C": ["N", "L", "H"], "I": ["N", "L", "H"], "A": ["N", "L", "H"],
    "E": ["U", "P", "F", "H"], "RL": ["O", "T", "W", "U"], "RC": ["U", "R", "C"],
    "CR": ["L", "M", "H"], "IR": ["L", "M", "H"], "AR": ["L", "M", "H"],
}
ORDER4 = {
    "AV": ["P", "L", "A", "N"], "PR": ["H", "L", "N"], "UI": ["A", "P", "N"],
    "AC": ["H", "L"], "AT": ["P", "N"],
    "VC": ["N", "L", "H"], "VI": ["N", "L", "H"], "VA": ["N", "L", "H"],
    "SC": ["N", "L", "H"], "SI": ["N", "L", "H", "S"], "SA": ["N", "L", "H", "S"],
    "CR": ["L", "M", "H"], "IR": ["L", "M", "H"], "AR": ["L", "M", "H"],
    "E": ["U", "P", "A"],
}


def parse(family, s):
    """Model parse. Returns ("ACCEPT", OrderedDict metric->value in input order)
    or ("MALFORMED", reason) or ("MANDATORY", [missing])."""
    prefix = PREFIX[family]
    table = METRICS[family]
    if not isinstance(s, str):
        return "MALFORMED", "not a string"
    if family == "2":
        body = s
    else:
        if not s.startswith(prefix):
            return "MALFORMED", "prefix"
        body = s[len(prefix):]
    if body == "":
        return "MALFORMED", "empty"
    got = OrderedDict()
    for field in body.split("/"):
        if field == "":
            return "MALFORMED", "empty field"
        parts = field.split(":")
        if len(parts) != 2:
            return "MALFORMED", "field shape"
        m, v = parts
        if m not in table:
            return "MALFORMED", "unknown metric"
        if v not in table[m]:
            return "MALFORMED", "illegal value"
        if m in got:
            return "MALFORMED", "repeat"
        got[m] = v
    missing = [m for m in MANDATORY[family] if m not in got]
    if missing:
        return "MANDATORY", missing
    return "ACCEPT", got


def classify(family, s):
    return parse(family, s)[0]


def classify_class(major, s):
    """Verdict of the *class* CVSS2 / CVSS3 / CVSS4 (v3 accepts either minor)."""
    if major == 2:
        return classify("2", s)
    if major == 4:
        return classify("4.0", s)
    a = classify("3.0", s)
    if a == "ACCEPT":
        return a
    b = classify("3.1", s)
    if b == "ACCEPT":
        return b
    # both rejected: a missing prefix is MALFORMED for both; with a right prefix the verdicts agree
    if s.startswith(PREFIX["3.0"]):
        return a
    return b


def family_of(major, s):
    if major == 2:
        return "2"
    if major == 4:
        return "4.0"
    return "3.0" if s.startswith(PREFIX["3.0"]) else "3.1"


def defined(family, got):
    """The metrics that were given a defined value: OrderedDict in specification order."""
    nd = ND[family]
    return OrderedDict((m, got[m]) for m in METRICS[family] if m in got and got[m] != nd)


def canonical(family, got, prefix=True):
    d = defined(family, got)
    return (PREFIX[family] if prefix else "") + "/".join("%s:%s" % kv for kv in d.items())


def model_key(family, got):
    """Two accepted vectors are equal iff their model keys are equal."""
    return (family, tuple(sorted(defined(family, got).items())))


def spell(family, assignment, order=None):
    """Vector string from a metric->value mapping in the given (default: spec) order."""
    order = order or [m for m in METRICS[family] if m in assignment]
    return PREFIX[family] + "/".join("%s:%s" % (m, assignment[m]) for m in order)


# ---------------------------------------------------------------- block layouts
# The metric blocks of each version in specification order. A "block layout" writes the blocks in
# another order (every permutation of the blocks: 24 for v2/v3, 120 for v4) keeping the order
# inside a block, optionally with each block reversed. Among them are the orders of every table a
# maintainer could plausibly iterate instead of the specification order (base, supplemental,
# modified, requirements, threat - the library's own METRICS table of v4 - and the like).
BLOCKS = {
    "2": [V2_BASE, V2_TEMPORAL, ["CDP", "TD"], ["CR", "IR", "AR"]],
    "3.0": [V3_BASE, V3_TEMPORAL, ["CR", "IR", "AR"], V3_MODIFIED],
    "3.1": [V3_BASE, V3_TEMPORAL, ["CR", "IR", "AR"], V3_MODIFIED],
    "4.0": [V4_BASE, V4_THREAT, ["CR", "IR", "AR"], V4_MODIFIED, V4_SUPPLEMENTAL],
}


def block_layouts(family, assignment, reverse_inside=False):
    """All distinct field orders of `assignment` obtained by permuting the version's metric blocks
    (block-internal order kept, or reversed in every block when reverse_inside). Deterministic."""
    import itertools as _it
    blocks = [[m for m in b if m in assignment] for b in BLOCKS[family]]
    blocks = [b for b in blocks if b]
    out, seen = [], set()
    for perm in _it.permutations(range(len(blocks))):
        order = []
        for k in perm:
            order += blocks[k][::-1] if reverse_inside else blocks[k]
        t = tuple(order)
        if t not in seen:
            seen.add(t)
            out.append(order)
    return out


def full_assignment(family, pick=-1):
    """Every metric of the version defined: value number `pick` of its table (never Not Defined)."""
    out = OrderedDict()
    for m, vals in METRICS[family].items():
        vs = [v for v in vals if v != ND[family]]
        # a Modified metric gets another value than its base metric, so that the order in which
        # the two are read matters to anything that confuses them
        out[m] = vs[(pick + (1 if m in MODIFIED[family] else 0)) % len(vs)]
    return out
