"""
E2 - breadth-first exploration of a rewrite graph of strings.

Nodes are strings, an edge is one elementary rewrite from a finite menu. Level-synchronous BFS,
deduplicated on the string: neighbours of the frontier are generated in parallel, merged and
deduplicated in the parent, then every *new* node is judged in parallel on the real code.
"""

from .. import core

_NEIGH = None
_JUDGE = None
_LEVEL = 0


def _gen(chunk):
    out = set()
    n = 0
    for s in chunk:
        for t in _NEIGH(s, _LEVEL):
            n += 1
            out.add(t)
    return out, n


_WARMUP = ()


def _jud(t):
    tag, chunk, stop_at = t
    core.reset_ambient()
    core.maybe_prior(["E2"] + list(tag))
    scratch = _JUDGE(None, None)
    for s in _WARMUP:          # the seeds are (re)judged first in every fresh process: a string is
        _JUDGE(scratch, s)     # then always evaluated *after* the valid vectors it derives from
    acc = _JUDGE(None, None)
    for s in chunk:
        _JUDGE(acc, s)
        if stop_at is not None and s == stop_at:
            break
    for c in acc.get("bad", []):
        c.setdefault("task", list(tag))
        c.setdefault("tier", core.CURRENT_TIER)
    return acc


def chunks(seq, n):
    seq = list(seq)
    k = max(1, (len(seq) + n - 1) // n)
    return [seq[i:i + k] for i in range(0, len(seq), k)]


def explore(ctx, seeds, neighbours, judge, depth, parts=64, tag="explore", only=None, stop_at=None):
    """neighbours(s, level) -> iterable of strings; judge(None, None) -> new accumulator,
    judge(acc, s) records the verdict for s. Returns (accs, stats).
    Every chunk of new nodes is judged in a fresh fork (its verdicts are a function of the chunk
    alone); cases carry task = [tag, level, chunk number, parts]. only=(level, chunk number) re-judges
    just that chunk in this process up to stop_at (task replay)."""
    global _NEIGH, _JUDGE, _LEVEL, _WARMUP
    _NEIGH, _JUDGE = neighbours, judge
    _WARMUP = tuple(sorted(seeds))

    def judge_level(level, frontier):
        cs = chunks(frontier, parts)
        if only is not None:
            if only[0] != level:
                return []
            return [_jud(((tag, level, only[1], parts), cs[only[1]], stop_at))]
        return core.pool_map(_jud, [((tag, level, i, parts), c, None) for i, c in enumerate(cs)], fresh=True)

    seen = set(seeds)
    frontier = sorted(seen)
    accs = judge_level(0, frontier)
    stats = {"levels": [len(frontier)], "edges": 0}
    for level in range(depth):
        _LEVEL = level
        if only is not None and only[0] <= level:
            break
        gen = core.pool_map(_gen, chunks(frontier, parts))
        new = set()
        for s, n in gen:
            stats["edges"] += n
            new |= s
        new -= seen
        seen |= new
        frontier = sorted(new)
        stats["levels"].append(len(frontier))
        if not frontier:
            break
        accs += judge_level(level + 1, frontier)
    stats["nodes"] = len(seen)
    return accs, stats
