"""
E2 - breadth-first exploration of a rewrite graph of strings.

Nodes are strings, an edge is one elementary rewrite from a finite menu. Level-synchronous BFS,
deduplicated on the string: neighbours of the frontier are generated in parallel, merged and
deduplicated in the parent, then every *new* node is judged in parallel on the real code.
"""

from .. import core

_NEIGH = None
_JUDGE = None
_LEVEL = 0


def _gen(chunk):
    out = set()
    n = 0
    for s in chunk:
        for t in _NEIGH(s, _LEVEL):
            n += 1
            out.add(t)
    return out, n


def _jud(chunk):
    acc = _JUDGE(None, None)
    for s in chunk:
        _JUDGE(acc, s)
    return acc


def chunks(seq, n):
    seq = list(seq)
    k = max(1, (len(seq) + n - 1) // n)
    return [seq[i:i + k] for i in range(0, len(seq), k)]


def explore(ctx, seeds, neighbours, judge, depth, parts=64):
    """neighbours(s, level) -> iterable of strings; judge(None, None) -> new accumulator,
    judge(acc, s) records the verdict for s. Returns (accs, stats)."""
    global _NEIGH, _JUDGE, _LEVEL
    _NEIGH, _JUDGE = neighbours, judge
    seen = set(seeds)
    frontier = sorted(seen)
    accs = core.pool_map(_jud, chunks(frontier, parts))
    stats = {"levels": [len(frontier)], "edges": 0}
    for level in range(depth):
        _LEVEL = level
        gen = core.pool_map(_gen, chunks(ctx.rot(frontier), parts))
        new = set()
        for s, n in gen:
            stats["edges"] += n
            new |= s
        new -= seen
        seen |= new
        frontier = sorted(new)
        stats["levels"].append(len(frontier))
        if not frontier:
            break
        accs += core.pool_map(_jud, chunks(frontier, parts))
    stats["nodes"] = len(seen)
    return accs, stats
