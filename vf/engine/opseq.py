"""
E3 - exploration of operation sequences on real objects, with canonical state snapshots.

canon(x)           canonical, order-preserving, hashable-by-JSON form of a Python value
tables_snapshot()  digest of every module-level constant of cvss.constants2/3/4 (+ the public
                   module-level names of the other cvss modules that are plain data)
ambient_snapshot() decimal context (without signal flags), sys.path, warnings.filters, ...
object_snapshot(o) canon(vars(o))
"""

import decimal
import fractions
import hashlib
import json
import re
import sys
import types
import warnings
from collections import OrderedDict

try:
    from collections.abc import Mapping
except ImportError:  # pragma: no cover
    from collections import Mapping

_ADDRESS = re.compile(r"( at)? 0x[0-9a-fA-F]+|\b(un)?locked\b ?")


def canon(x, depth=0):
    if depth > 12:
        return "<deep>"
    if x is None or isinstance(x, (bool, int, str)):
        return x
    if isinstance(x, float):
        return ["float", repr(x)]
    if isinstance(x, decimal.Decimal):
        return ["Decimal", str(x), repr(x.as_tuple())]
    if isinstance(x, OrderedDict):
        return ["odict"] + [[canon(k, depth + 1), canon(v, depth + 1)] for k, v in x.items()]
    if isinstance(x, dict):
        return ["dict"] + [[canon(k, depth + 1), canon(v, depth + 1)] for k, v in x.items()]
    if isinstance(x, (list, tuple)):
        return [type(x).__name__] + [canon(v, depth + 1) for v in x]
    if isinstance(x, (set, frozenset)):
        return [type(x).__name__] + sorted((canon(v, depth + 1) for v in x), key=repr)
    if isinstance(x, bytes):
        return ["bytes", x.decode("latin-1")]
    if isinstance(x, fractions.Fraction):
        return ["Fraction", str(x)]
    if isinstance(x, Mapping):
        # a read-only mapping type of the package's own (frozen constant tables): its items, in its order
        try:
            return ["mapping:%s" % type(x).__name__] + [[canon(k, depth + 1), canon(x[k], depth + 1)] for k in x]
        except Exception:  # noqa
            pass
    if type(x).__module__.split(".")[0] == "cvss" and not isinstance(x, type) and not callable(x):
        # an instance of one of the package's own helper classes: its own data
        try:
            st = instance_state(x)
            return ["<%s>" % type(x).__name__] + [[k, canon(st[k], depth + 1)] for k in sorted(st)]
        except Exception:  # noqa
            pass
    # anything else (a lock, a compiled pattern, a function): its type and its repr without the address,
    # which differs from process to process and says nothing about the value
    return ["<%s>" % type(x).__name__, _ADDRESS.sub("", repr(x))[:200]]


def digest(x):
    return hashlib.sha256(json.dumps(x, sort_keys=False, default=str).encode("utf-8")).hexdigest()


DATA_TYPES = (type(None), bool, int, float, str, bytes, decimal.Decimal, dict, list, tuple, set, frozenset)


def module_data(mod):
    out = []
    for name in sorted(vars(mod)):
        if name.startswith("__"):
            continue
        v = vars(mod)[name]
        if isinstance(v, DATA_TYPES):
            out.append([name, canon(v)])
    return out


def tables_snapshot():
    import cvss
    import cvss.constants2
    import cvss.constants3
    import cvss.constants4
    import cvss.cvss_calculator
    import cvss.interactive
    import cvss.parser

    snap = []
    for mod in (cvss.constants2, cvss.constants3, cvss.constants4, cvss.cvss2, cvss.cvss3, cvss.cvss4,
                cvss.interactive, cvss.parser, cvss.cvss_calculator, cvss.exceptions, cvss):
        snap.append([mod.__name__, module_data(mod)])
    # class attributes that are plain data (a class-level mutable default would live here)
    for cls in (cvss.CVSS2, cvss.CVSS3, cvss.CVSS4):
        data = [[k, canon(v)] for k, v in sorted(vars(cls).items())
                if not k.startswith("__") and isinstance(v, DATA_TYPES)]
        snap.append([cls.__name__, data])
    return snap


def ambient_snapshot():
    c = decimal.getcontext()
    return {
        "decimal": [c.prec, c.rounding, c.Emin, c.Emax, c.capitals, c.clamp,
                    sorted(str(t) for t, on in c.traps.items() if on)],
        "sys.path": list(sys.path),
        "warnings.filters": [repr(f)[:120] for f in warnings.filters],
        "recursionlimit": sys.getrecursionlimit(),
        "stdout_is": repr(type(sys.stdout)),
    }


# The package's constant tables (pinned list: a *new* module global, e.g. a correct memo cache, is
# not a constant table and is judged by behaviour alone).
CONSTANT_TABLES = {
    "cvss.constants2": ["METRICS_ABBREVIATIONS", "METRICS_ABBREVIATIONS_JSON", "METRICS_MANDATORY",
                        "TEMPORAL_METRICS", "ENVIRONMENTAL_METRICS", "METRICS_VALUES", "METRICS_VALUE_NAMES"],
    "cvss.constants3": ["METRICS_ABBREVIATIONS", "METRICS_ABBREVIATIONS_JSON", "METRICS_MANDATORY",
                        "TEMPORAL_METRICS", "ENVIRONMENTAL_METRICS", "METRICS_VALUES", "METRICS_VALUE_NAMES"],
    "cvss.constants4": ["EPSILON", "METRICS", "METRICS_MANDATORY", "METRICS_ABBREVIATIONS",
                        "METRICS_ABBREVIATIONS_JSON", "METRICS_VALUE_NAMES", "MAX_COMPOSED", "MAX_SEVERITY",
                        "CVSS_LOOKUP_GLOBAL"],
    "cvss.cvss_calculator": ["PAD", "DEFAULT_VERSION"],
    "cvss": ["__version__"],
}


def constants_snapshot():
    import importlib
    snap = []
    for modname in sorted(CONSTANT_TABLES):
        mod = importlib.import_module(modname)
        for name in CONSTANT_TABLES[modname]:
            snap.append([modname, name, canon(getattr(mod, name, "<missing>"))])
        # the names the scoring modules imported from the constants modules must still be the same objects
    import cvss.cvss2, cvss.cvss3, cvss.cvss4, cvss.interactive
    for mod, src in ((cvss.cvss2, "cvss.constants2"), (cvss.cvss3, "cvss.constants3"), (cvss.cvss4, "cvss.constants4")):
        for name in CONSTANT_TABLES[src]:
            if hasattr(mod, name):
                snap.append([mod.__name__, name, canon(getattr(mod, name))])
    return snap


def instance_state(o):
    """The instance's own data: __dict__ if it has one, plus every slot of its classes that is set
    (a class that declares __slots__ has no __dict__ and vars() refuses it)."""
    state = dict(getattr(o, "__dict__", {}))
    for cls in type(o).__mro__:
        slots = cls.__dict__.get("__slots__", ())
        if isinstance(slots, str):
            slots = (slots,)
        for name in slots:
            if name in ("__dict__", "__weakref__"):
                continue
            try:
                state[name] = getattr(o, name)
            except AttributeError:
                pass
    return state


def object_snapshot(o):
    return canon(instance_state(o))
