"""
E4 - cooperative thread scheduler for real Python threads (sys.settrace + per-thread baton).

The library contains no locks, atomics or blocking calls, so every traced source line of the
package is a scheduling point. A *plan* is a list of segments (thread index, budget): the thread
runs `budget` scheduling points (None = until it finishes), then the baton passes to the next
segment's thread. Plans are enumerated by iterative preemption bounding (bound 0, 1, 2). Every
schedule runs to completion.

Granularities: "line" (every line event in files of the package), "call" (every function entry in
the package), "opcode" (every bytecode instruction in the package).
"""

import sys
import threading

from .. import core

TIMEOUT = 60


class Execution(object):
    def __init__(self, bodies, plan, granularity, prefix):
        self.bodies = bodies
        self.plan = list(plan)
        self.gran = granularity
        self.prefix = prefix
        n = len(bodies)
        self.sem = [threading.Semaphore(0) for _ in range(n)]
        self.done = [False] * n
        self.result = [None] * n
        self.points = [0] * n
        self.seg = 0
        self.used = 0
        self.trace_log = []          # (thread, points run) per executed segment
        self.error = None

    # ---- baton
    def _next_segment(self, frm):
        """Index of the next segment (after frm) whose thread is not done; appends run-to-completion
        segments when the plan is exhausted."""
        j = frm + 1
        while True:
            while j < len(self.plan):
                if not self.done[self.plan[j][0]]:
                    return j
                j += 1
            rest = [t for t in range(len(self.bodies)) if not self.done[t]]
            if not rest:
                return None
            for t in rest:
                self.plan.append((t, None))

    def _switch(self, tid, finished):
        self.trace_log.append((tid, self.used))
        j = self._next_segment(self.seg)
        if j is None:
            return
        self.seg, self.used = j, 0
        nxt = self.plan[j][0]
        if nxt == tid and not finished:
            return
        self.sem[nxt].release()
        if not finished:
            if not self.sem[tid].acquire(timeout=TIMEOUT):
                self.error = "scheduler timeout (thread %d never got the baton back)" % tid
                raise SystemExit

    def _point(self, tid):
        self.points[tid] += 1
        budget = self.plan[self.seg][1]
        if budget is not None and self.used >= budget:
            self._switch(tid, False)
        self.used += 1

    # ---- tracing
    def _tracer(self, tid):
        prefix = self.prefix
        gran = self.gran
        point = self._point

        def local(frame, event, arg):
            if event == "line" and gran == "line":
                point(tid)
            elif event == "opcode":
                point(tid)
            return local

        def glob(frame, event, arg):
            if event == "call" and frame.f_code.co_filename.startswith(prefix):
                if gran == "call":
                    point(tid)
                    return None
                if gran == "opcode":
                    frame.f_trace_opcodes = True
                    frame.f_trace_lines = False
                return local
            return None

        return glob

    def _thread(self, tid):
        if not self.sem[tid].acquire(timeout=TIMEOUT):
            self.error = "scheduler timeout (thread %d never started)" % tid
            return
        sys.settrace(self._tracer(tid))
        try:
            try:
                self.result[tid] = ("ok", self.bodies[tid]())
            except SystemExit:
                self.result[tid] = ("exc", "scheduler abort")
            except BaseException as e:  # noqa
                self.result[tid] = ("exc", "%s: %s" % (type(e).__name__, e))
        finally:
            sys.settrace(None)
            self.done[tid] = True
            self._switch(tid, True)

    def run(self):
        ths = [threading.Thread(target=self._thread, args=(t,)) for t in range(len(self.bodies))]
        for t in ths:
            t.daemon = True
            t.start()
        first = self.plan[0][0]
        self.sem[first].release()
        for t in ths:
            t.join(TIMEOUT)
            if t.is_alive():
                self.error = self.error or "scheduler timeout (join)"
        if self.error:
            raise core.HarnessError(self.error)
        return self.result


def count_points(bodies, granularity, prefix):
    """Scheduling points of each body when it runs alone."""
    out = []
    for i in range(len(bodies)):
        ex = Execution([bodies[i]], [(0, None)], granularity, prefix)
        ex.run()
        out.append(ex.points[0])
    return out


def plans(npoints, bound, stride=1):
    """All plans with exactly `bound` preemptions for len(npoints) threads (2 or 3)."""
    n = len(npoints)
    ts = list(range(n))
    if bound == 0:
        import itertools
        for perm in itertools.permutations(ts):
            yield [(t, None) for t in perm]
        return
    if bound == 1:
        for a in ts:
            others = [t for t in ts if t != a]
            import itertools
            for perm in itertools.permutations(others):
                for k in range(1, npoints[a], stride):
                    yield [(a, k)] + [(t, None) for t in perm] + [(a, None)]
        return
    if bound == 2:
        for a in ts:
            for b in ts:
                if a == b:
                    continue
                rest = [t for t in ts if t not in (a, b)]
                for ka in range(1, npoints[a], stride):
                    for kb in range(1, npoints[b], stride):
                        yield [(a, ka), (b, kb)] + [(t, None) for t in rest] + [(a, None), (b, None)]
                    # the preempted thread is preempted a second time after resuming
                    # (a: ka) (b: all) (a: k2) ... needs a third runnable thread or b unfinished:
                    # covered by the (a,ka),(b,kb) family with roles swapped.
        return
    raise ValueError(bound)
