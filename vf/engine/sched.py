"""
E4 - cooperative thread scheduler for real Python threads (sys.settrace + per-thread baton).

Every traced source line of the package is a scheduling point. The tree as pinned contains no
locks or blocking calls; a tree that does gets them through vf.engine.coop (cooperative stand-ins
for threading.Lock/RLock/Condition/Event/Semaphore): a thread that would block hands the baton
on, "no enabled thread while some are blocked" is a deadlock, a thread that runs SPIN_LIMIT
points in one segment is made to hand over (a polling loop) and, after MAX_SPINS hand-overs, the
execution is a livelock. Both are results of the execution, not harness errors. A *plan* is a list of segments (thread index, budget): the thread
runs `budget` scheduling points (None = until it finishes), then the baton passes to the next
segment's thread. Plans are enumerated by iterative preemption bounding (bound 0, 1, 2). Every
schedule runs to completion.

Granularities: "line" (every line event in files of the package), "call" (every function entry in
the package), "opcode" (every bytecode instruction in the package).
"""

import sys
import threading

from .. import core
from . import coop

TIMEOUT = 60
SPIN_LIMIT = 300000
MAX_SPINS = 6


class Execution(object):
    def __init__(self, bodies, plan, granularity, prefix):
        self.bodies = bodies
        self.plan = list(plan)
        self.gran = granularity
        self.prefix = prefix
        n = len(bodies)
        self.sem = [threading.Semaphore(0) for _ in range(n)]
        self.done = [False] * n
        self.result = [None] * n
        self.points = [0] * n
        self.seg = 0
        self.used = 0
        self.trace_log = []          # (thread, points run) per executed segment
        self.error = None
        self.tids = {}               # thread ident -> index
        self.blocked = {}            # index -> (object waited for, timed, description)
        self.timedout = set()
        self.spins = [0] * n
        self.deadlock = None         # {thread index: what it waits for} when no thread is enabled
        self.livelock = None
        self.aborting = False

    # ---- blocking (called by vf.engine.coop on the thread that holds the baton)
    def block(self, tid, obj, timed, what):
        """The calling thread cannot proceed. Returns True when it was woken by 'time-out'."""
        self.blocked[tid] = (obj, timed, what)
        self._switch(tid, False)
        if self.aborting:
            raise SystemExit
        if tid in self.timedout:
            self.timedout.discard(tid)
            return True
        return False

    def wake(self, obj):
        for t in [t for t, b in self.blocked.items() if b[0] is obj]:
            del self.blocked[t]

    def unblock(self, tid):
        self.blocked.pop(tid, None)

    def _abort(self):
        self.aborting = True
        for t in range(len(self.bodies)):
            if not self.done[t]:
                self.sem[t].release()

    def stuck(self):
        """Description of a deadlock / livelock of this execution, or None."""
        if self.deadlock:
            return "deadlock: %s; no thread can run" % "; ".join(
                "thread %d waits forever in %s" % (t, w) for t, w in sorted(self.deadlock.items()))
        if self.livelock:
            return self.livelock
        return None

    # ---- baton
    def _next_segment(self, frm):
        """Index of the next segment (after frm) whose thread is not done; appends run-to-completion
        segments when the plan is exhausted."""
        j = frm + 1
        while True:
            while j < len(self.plan):
                t = self.plan[j][0]
                if not self.done[t] and t not in self.blocked:
                    return j
                j += 1
            rest = [t for t in range(len(self.bodies)) if not self.done[t] and t not in self.blocked]
            if not rest:
                bl = [t for t in sorted(self.blocked) if not self.done[t]]
                if not bl:
                    return None
                timed = [t for t in bl if self.blocked[t][1]]
                if timed:                      # nothing else can run: the timed wait times out
                    del self.blocked[timed[0]]
                    self.timedout.add(timed[0])
                    self.plan.append((timed[0], None))
                    continue
                self.deadlock = dict((t, self.blocked[t][2]) for t in bl)
                self._abort()
                return None
            for t in rest:
                self.plan.append((t, None))

    def _switch(self, tid, finished):
        if self.aborting:
            if not finished:
                raise SystemExit
            return
        self.trace_log.append((tid, self.used))
        j = self._next_segment(self.seg)
        if j is None:
            if self.aborting and not finished:
                raise SystemExit
            return
        self.seg, self.used = j, 0
        nxt = self.plan[j][0]
        if nxt == tid and not finished:
            return
        self.sem[nxt].release()
        if not finished:
            if not self.sem[tid].acquire(timeout=TIMEOUT):
                self.error = "scheduler timeout (thread %d never got the baton back)" % tid
                raise SystemExit
            if self.aborting:
                raise SystemExit

    def _point(self, tid):
        if self.aborting:
            return
        self.points[tid] += 1
        budget = self.plan[self.seg][1]
        if budget is not None and self.used >= budget:
            self._switch(tid, False)
        elif budget is None and self.used >= SPIN_LIMIT:
            # a thread that never finishes its segment polls for something: hand over fairly
            self.spins[tid] += 1
            if self.spins[tid] > MAX_SPINS:
                self.livelock = "livelock: thread %d ran %d x %d scheduling points without finishing" % (
                    tid, MAX_SPINS, SPIN_LIMIT)
                self._abort()
                raise SystemExit
            self.plan.append((tid, None))
            self._switch(tid, False)
        self.used += 1

    # ---- tracing
    def _tracer(self, tid):
        prefix = self.prefix
        gran = self.gran
        point = self._point

        def local(frame, event, arg):
            if event == "line" and gran == "line":
                point(tid)
            elif event == "opcode":
                point(tid)
            return local

        def glob(frame, event, arg):
            if event == "call" and frame.f_code.co_filename.startswith(prefix):
                if gran == "call":
                    point(tid)
                    return None
                if gran == "opcode":
                    frame.f_trace_opcodes = True
                    frame.f_trace_lines = False
                return local
            return None

        return glob

    def _thread(self, tid):
        self.tids[threading.get_ident()] = tid
        if not self.sem[tid].acquire(timeout=TIMEOUT):
            self.error = "scheduler timeout (thread %d never started)" % tid
            return
        if self.aborting:
            self.result[tid] = ("exc", "scheduler abort")
            self.done[tid] = True
            return
        sys.settrace(self._tracer(tid))
        try:
            try:
                self.result[tid] = ("ok", self.bodies[tid]())
            except SystemExit:
                self.result[tid] = ("exc", "scheduler abort")
            except BaseException as e:  # noqa
                self.result[tid] = ("exc", "%s: %s" % (type(e).__name__, e))
        finally:
            sys.settrace(None)
            self.done[tid] = True
            self._switch(tid, True)

    def run(self):
        ths = [threading.Thread(target=self._thread, args=(t,)) for t in range(len(self.bodies))]
        for t in ths:
            t.daemon = True
            t.start()
        first = self.plan[0][0]
        coop.ACTIVE = self
        try:
            self.sem[first].release()
            for t in ths:
                t.join(TIMEOUT)
                if t.is_alive():
                    self.error = self.error or "scheduler timeout (join)"
        finally:
            coop.ACTIVE = None
        if self.error:
            raise core.HarnessError(self.error)
        return self.result


def count_points(bodies, granularity, prefix):
    """Scheduling points of each body when it runs alone."""
    out = []
    for i in range(len(bodies)):
        ex = Execution([bodies[i]], [(0, None)], granularity, prefix)
        ex.run()
        out.append(ex.points[0])
    return out


def plans(npoints, bound, stride=1):
    """All plans with exactly `bound` preemptions for len(npoints) threads (2 or 3)."""
    n = len(npoints)
    ts = list(range(n))
    if bound == 0:
        import itertools
        for perm in itertools.permutations(ts):
            yield [(t, None) for t in perm]
        return
    if bound == 1:
        for a in ts:
            others = [t for t in ts if t != a]
            import itertools
            for perm in itertools.permutations(others):
                for k in range(1, npoints[a], stride):
                    yield [(a, k)] + [(t, None) for t in perm] + [(a, None)]
        return
    if bound == 2:
        for a in ts:
            for b in ts:
                if a == b:
                    continue
                rest = [t for t in ts if t not in (a, b)]
                for ka in range(1, npoints[a], stride):
                    for kb in range(1, npoints[b], stride):
                        yield [(a, ka), (b, kb)] + [(t, None) for t in rest] + [(a, None), (b, None)]
                    # the preempted thread is preempted a second time after resuming
                    # (a: ka) (b: all) (a: k2) ... needs a third runnable thread or b unfinished:
                    # covered by the (a,ka),(b,kb) family with roles swapped.
        return
    raise ValueError(bound)
