"""
E5 - configuration matrix: the probe program (vf/probe.py) is run as a subprocess under each
configuration (interpreter x PYTHONHASHSEED x decimal context); chunk digests are compared with the
reference configuration's; for a differing chunk both sides are re-run verbosely and the first
differing case is extracted.
"""

import json
import os
import subprocess

from .. import core

PROBE = os.path.join(core.VERIF, "vf", "probe.py")


class Config(object):
    def __init__(self, name, python, hashseed="0", decimal=None):
        self.name, self.python, self.hashseed, self.decimal = name, python, str(hashseed), decimal

    def cmd(self, tier, extra=()):
        c = [self.python, "-S" if False else "-B", PROBE, core.REPO, tier] + list(extra)
        if self.decimal:
            c += ["--decimal", str(self.decimal[0]), self.decimal[1]]
        return c

    def env(self):
        return {"PYTHONHASHSEED": self.hashseed, "PATH": "/usr/bin:/bin", "PYTHONDONTWRITEBYTECODE": "1",
                "LC_ALL": "C.UTF-8", "LANG": "C.UTF-8", "PYTHONIOENCODING": "utf-8", "HOME": "/tmp"}

    def key(self):
        return {"name": self.name, "python": self.python, "hashseed": self.hashseed,
                "decimal": list(self.decimal) if self.decimal else None}


def run_probe(cfg, tier, extra=()):
    p = subprocess.Popen(cfg.cmd(tier, extra), stdout=subprocess.PIPE, stderr=subprocess.PIPE,
                         env=cfg.env(), cwd="/")
    out, err = p.communicate()
    return p.returncode, out.decode("utf-8", "replace"), err.decode("utf-8", "replace")


def _run(t):
    cfg, tier, sections = t
    extra = ["--sections", ",".join(sections)] if sections else []
    rc, out, err = run_probe(cfg, tier, extra)
    return cfg.name, rc, out, err


def digests(out):
    d = {}
    for line in out.splitlines():
        parts = line.split()
        if len(parts) == 4:
            d[(parts[0], int(parts[1]))] = (int(parts[2]), parts[3])
    return d


def first_difference(ref, cfg, tier, section, chunk):
    a = run_probe(ref, tier, ["--dump", section, str(chunk)])[1].splitlines()
    b = run_probe(cfg, tier, ["--dump", section, str(chunk)])[1].splitlines()
    for i, (x, y) in enumerate(zip(a, b)):
        if x != y:
            return i, x, y
    if len(a) != len(b):
        return min(len(a), len(b)), "<%d lines>" % len(a), "<%d lines>" % len(b)
    return None


def compare(ctx, ref, configs, tier, sections=None, nproc=None):
    """Runs the probe under ref and every config. Returns (results, stats) where results is a list
    of dicts {config, kind: 'import'|'diff', section, chunk, index, ref_line, cfg_line, stderr}."""
    outs = core.pool_map(_run, [(c, tier, sections) for c in [ref] + list(configs)], nproc=nproc)
    name, rc, out, err = outs[0]
    if rc != 0:
        raise core.HarnessError("probe failed under the reference configuration %s: %s" % (ref.name, err[-800:]))
    refd = digests(out)
    if not refd:
        raise core.HarnessError("probe printed nothing under the reference configuration")
    results = []
    stats = {"chunks": len(refd), "cases": sum(v[0] for v in refd.values()), "configs": len(configs),
             "comparisons": 0}
    for cfg, (name, rc, out, err) in zip(configs, outs[1:]):
        if rc != 0:
            results.append({"config": cfg.key(), "kind": "crash", "stderr": err[-1500:]})
            continue
        d = digests(out)
        for k in sorted(refd):
            stats["comparisons"] += refd[k][0]
            if d.get(k) != refd[k]:
                fd = first_difference(ref, cfg, tier, k[0], k[1])
                if fd is None:
                    raise core.HarnessError("chunk %s differs under %s but its verbose dump does not "
                                            "(nondeterministic probe?)" % (k, cfg.name))
                results.append({"config": cfg.key(), "kind": "diff", "section": k[0], "chunk": k[1],
                                "index": fd[0], "ref_line": fd[1][:1500], "cfg_line": fd[2][:1500]})
                break   # one difference per configuration is enough
    return results, stats


def replay_diff(ref, case, tier):
    """Re-run one recorded difference. Returns (still differs, detail)."""
    c = case["config"]
    cfg = Config(c["name"], c["python"], c["hashseed"], tuple(c["decimal"]) if c["decimal"] else None)
    if case["kind"] == "crash":
        rc, out, err = run_probe(cfg, tier, ["--sections", "vectors", "--dump", "vectors", "0"])
        return rc != 0, err[-400:]
    fd = first_difference(ref, cfg, tier, case["section"], case["chunk"])
    return fd is not None, ("first differing case: %s | %s" % (fd[1][:300], fd[2][:300])) if fd else "identical"
