"""
Cooperative stand-ins for the `threading` synchronisation primitives, so that *waiting is visible*
to the E4 scheduler (vf.engine.sched).

The tree under test is imported while sys.modules["threading"] is this module's proxy (see
core.load_tree): whatever the package creates through `threading.Lock / RLock / Condition / Event /
Semaphore / BoundedSemaphore` - at import time or later - is one of the classes below. Outside a
scheduled execution (and for threads the scheduler does not own) they delegate to the real
primitive they wrap, so ordinary single- and multi-threaded use is unchanged. Inside a scheduled
execution a thread that would block hands the baton to the next enabled thread of the plan; when
no thread is enabled and some are blocked the execution is a *deadlock* (reported, never hung);
a wait with a timeout is woken with "timed out" only when nothing else can run.

Everything else of `threading` (Thread, local, current_thread, ...) is the real thing.
Not intercepted: `_thread.allocate_lock` used directly, locks taken in C code, time.sleep polling
(the scheduler's spin limit turns an endless poll into a fair hand-over, then into a livelock).
"""

import sys
import threading as _real
import types

ACTIVE = None      # the running sched.Execution, if any


def _where():
    ex = ACTIVE
    if ex is None:
        return None, None
    tid = ex.tids.get(_real.get_ident())
    if tid is None:
        return None, None
    return ex, tid


class Lock(object):
    _reentrant = False

    def __init__(self):
        self._real = _real.RLock() if self._reentrant else _real.Lock()
        self._owner = None
        self._count = 0

    def acquire(self, blocking=True, timeout=-1):
        ex, tid = _where()
        if ex is None:
            return self._real.acquire(blocking, timeout)
        if self._reentrant and self._owner == tid:
            self._count += 1
            return True
        timed = timeout is not None and timeout >= 0
        while self._owner is not None:
            if not blocking:
                return False
            if ex.block(tid, self, timed, "acquire of a %s held by thread %s" % (type(self).__name__, self._owner)):
                return False          # timed out
        self._owner, self._count = tid, 1
        return True

    def release(self):
        ex, tid = _where()
        if ex is None:
            return self._real.release()
        if ex.aborting:
            return
        if self._owner is None or (self._reentrant and self._owner != tid):
            raise RuntimeError("release of an un-acquired lock")
        self._count -= 1
        if self._count <= 0:
            self._owner, self._count = None, 0
            ex.wake(self)

    def locked(self):
        ex, tid = _where()
        if ex is None:
            return self._real.locked() if hasattr(self._real, "locked") else False
        return self._owner is not None

    def __enter__(self):
        self.acquire()
        return self

    def __exit__(self, *a):
        self.release()

    # used by Condition
    def _release_save(self):
        st = (self._owner, self._count)
        self._owner, self._count = None, 0
        return st

    def _acquire_restore(self, ex, tid, st):
        while self._owner is not None:
            ex.block(tid, self, False, "re-acquire of the condition's lock held by thread %s" % self._owner)
        self._owner, self._count = st


class RLock(Lock):
    _reentrant = True


class Condition(object):
    def __init__(self, lock=None):
        self._lock = lock if lock is not None else RLock()
        if isinstance(self._lock, Lock):
            self._real = _real.Condition(self._lock._real)
        else:                                   # a real lock object handed in: stay real
            self._real = _real.Condition(self._lock)
        self._waiters = []          # tids, FIFO
        self.acquire = self._lock.acquire
        self.release = self._lock.release

    def __enter__(self):
        self._lock.acquire()
        return self

    def __exit__(self, *a):
        self._lock.release()

    def wait(self, timeout=None):
        ex, tid = _where()
        if ex is None or not isinstance(self._lock, Lock):
            return self._real.wait(timeout)
        if self._lock._owner != tid:
            raise RuntimeError("cannot wait on un-acquired lock")
        st = self._lock._release_save()
        ex.wake(self._lock)
        self._waiters.append(tid)
        timed_out = ex.block(tid, self, timeout is not None, "Condition.wait()")
        if tid in self._waiters:
            self._waiters.remove(tid)
        self._lock._acquire_restore(ex, tid, st)
        return not timed_out

    def wait_for(self, predicate, timeout=None):
        result = predicate()
        while not result:
            if not self.wait(timeout) and timeout is not None:
                return predicate()
            result = predicate()
        return result

    def notify(self, n=1):
        ex, tid = _where()
        if ex is None or not isinstance(self._lock, Lock):
            return self._real.notify(n)
        if self._lock._owner != tid:
            raise RuntimeError("cannot notify on un-acquired lock")
        for t in self._waiters[:n]:
            self._waiters.remove(t)
            ex.unblock(t)

    def notify_all(self):
        self.notify(len(self._waiters) if _where()[0] is not None else 1 << 30)

    notifyAll = notify_all


class Event(object):
    def __init__(self):
        self._cond = Condition(Lock())
        self._flag = False

    def is_set(self):
        return self._flag

    isSet = is_set

    def set(self):
        with self._cond:
            self._flag = True
            self._cond.notify_all()

    def clear(self):
        with self._cond:
            self._flag = False

    def wait(self, timeout=None):
        with self._cond:
            if not self._flag:
                self._cond.wait(timeout)
            return self._flag


class Semaphore(object):
    def __init__(self, value=1):
        if value < 0:
            raise ValueError("semaphore initial value must be >= 0")
        self._cond = Condition(Lock())
        self._value = value

    def acquire(self, blocking=True, timeout=None):
        with self._cond:
            while self._value == 0:
                if not blocking:
                    return False
                if not self._cond.wait(timeout) and timeout is not None:
                    return False
            self._value -= 1
            return True

    def release(self, n=1):
        with self._cond:
            self._value += n
            self._cond.notify(n)

    def __enter__(self):
        self.acquire()
        return self

    def __exit__(self, *a):
        self.release()


class BoundedSemaphore(Semaphore):
    def __init__(self, value=1):
        Semaphore.__init__(self, value)
        self._initial = value

    def release(self, n=1):
        if self._value + n > self._initial:
            raise ValueError("Semaphore released too many times")
        Semaphore.release(self, n)


def proxy_module():
    """A module object that is `threading` except for the synchronisation primitives."""
    m = types.ModuleType("threading")
    m.__dict__.update(_real.__dict__)
    m.Lock, m.RLock, m.Condition, m.Event = Lock, RLock, Condition, Event
    m.Semaphore, m.BoundedSemaphore = Semaphore, BoundedSemaphore
    m.__verif_proxy__ = True
    return m


class importing(object):
    """with coop.importing(): import the tree under test."""

    def __enter__(self):
        self.saved = sys.modules.get("threading")
        sys.modules["threading"] = proxy_module()

    def __exit__(self, *a):
        sys.modules["threading"] = self.saved
