"""
E1 - exhaustive product sweep on the real code.

A *block* is a finite product A x B x C of "parts". A part is a pair (fragment, assignment):
the '/'-joined text it contributes to the vector string and the metric->value mapping it stands
for. Every point of every block is visited exactly once; blocks are cut into tasks over the
flattened A x B index and handed to a fork pool. The check supplies a module-level *visitor*
  visit(acc, block, vec, asg, idx)
which builds the real object from `vec`, compares with its oracle and records into `acc` (a dict
created by new_acc()). Accumulators are merged in task order, so results are deterministic.
"""

from __future__ import print_function

from .. import core


class Block(object):
    """twin: a second family whose prefix is used for the *same* body right after each point
    (v3.0 / v3.1): forces collisions in anything keyed without the minor version."""

    def __init__(self, name, family, A, B=None, C=None, prefix=None, meta=None, twin=None):
        self.name = name
        self.family = family
        self.twin = twin
        self.A = list(A)
        self.B = list(B) if B is not None else [("", {})]
        self.C = list(C) if C is not None else [("", {})]
        self.prefix = prefix  # None -> family prefix
        self.meta = meta or {}

    def size(self):
        return len(self.A) * len(self.B) * len(self.C) * (2 if self.twin else 1)

    def twin_block(self):
        from ..ref import tables
        t = Block(self.name, self.twin, [], prefix=tables.PREFIX[self.twin], meta=self.meta)
        t.A, t.B, t.C = self.A, self.B, self.C
        return t


_BLOCKS = None
_VISIT = None
_NEWACC = None
_TIER = None


def _task(t, stop_at=None):
    core.reset_ambient()
    bi, lo, hi = t
    blk = _BLOCKS[bi]
    twin = blk.twin_block() if blk.twin else None
    acc = _NEWACC()
    acc["_task"] = t
    A, B, C = blk.A, blk.B, blk.C
    nB, nC = len(B), len(C)
    prefix = blk.prefix
    visit = _VISIT
    for ab in range(lo, hi):
        ia, ib = divmod(ab, nB)
        fa, da = A[ia]
        fb, db = B[ib]
        head = fa if not fb else (fa + "/" + fb if fa else fb)
        if db:
            dab = dict(da)
            dab.update(db)
        else:
            dab = da
        base_idx = ab * nC
        for ic in range(nC):
            fc, dc = C[ic]
            if fc:
                vec = prefix + (head + "/" + fc if head else fc)
                asg = dict(dab)
                asg.update(dc)
            else:
                vec = prefix + head
                asg = dab
            visit(acc, blk, vec, asg, base_idx + ic)
            if twin is not None:
                visit(acc, twin, twin.prefix + vec[len(prefix):], asg, base_idx + ic)
            if stop_at is not None and any(c.get("input") == stop_at for c in acc.get("bad", [])):
                return acc
    for c in acc.get("bad", []):
        c.setdefault("task", [blk.name, lo, hi])
        c.setdefault("tier", _TIER)
    return acc


def run(ctx, blocks, visit, new_acc, tasks_per_block=None):
    """Visit every point of every block. Returns the list of accumulators in task order."""
    global _BLOCKS, _VISIT, _NEWACC, _TIER
    from ..ref import tables

    for b in blocks:
        if b.prefix is None:
            b.prefix = tables.PREFIX[b.family]
    _BLOCKS, _VISIT, _NEWACC, _TIER = blocks, visit, new_acc, ctx.tier
    tasks = []
    total = sum(b.size() for b in blocks) or 1
    for bi, b in enumerate(blocks):
        n = len(b.A) * len(b.B)
        want = tasks_per_block or max(1, min(n, int(round(core.NPROC * 6.0 * b.size() / total)) or 1))
        for lo, hi in core.split_range(n, want):
            tasks.append((bi, lo, hi))
    order = ctx.rot(range(len(tasks)))
    out = core.pool_map(_task, [tasks[i] for i in order], fresh=True)
    accs = [None] * len(tasks)
    for i, a in zip(order, out):
        accs[i] = a
    return accs


def run_single_task(blocks, visit, new_acc, name, lo, hi, tier=None):
    """Run one task in this process and return its accumulator."""
    global _BLOCKS, _VISIT, _NEWACC, _TIER
    from ..ref import tables

    for b in blocks:
        if b.prefix is None:
            b.prefix = tables.PREFIX[b.family]
    _BLOCKS, _VISIT, _NEWACC, _TIER = blocks, visit, new_acc, tier
    for bi, b in enumerate(blocks):
        if b.name == name:
            return _task((bi, lo, hi))
    raise core.HarnessError("block %r not found" % name)


def replay_task(blocks, visit, new_acc, case):
    """Re-run, in this (fresh) process, the task that produced `case` up to the failing input.
    Returns (violates, detail)."""
    global _BLOCKS, _VISIT, _NEWACC, _TIER
    from ..ref import tables

    for b in blocks:
        if b.prefix is None:
            b.prefix = tables.PREFIX[b.family]
    _BLOCKS, _VISIT, _NEWACC, _TIER = blocks, visit, new_acc, case.get("tier")
    name, lo, hi = case["task"]
    for bi, b in enumerate(blocks):
        if b.name == name:
            acc = _task((bi, lo, hi), stop_at=case["input"])
            hit = [c for c in acc.get("bad", []) if c.get("input") == case["input"]]
            if hit:
                return True, hit[0].get("what", "")
            return False, "the task no longer fails on %r (%d points replayed)" % (case["input"], acc.get("n", 0))
    raise core.HarnessError("block %r not found for task replay" % name)


def parts(metrics, domains, absent_as=None):
    """All assignments of `metrics` over `domains` (dict metric -> list of values) as parts.
    A value None means "metric absent from the vector"."""
    out = [("", {})]
    for m in metrics:
        nxt = []
        for frag, d in out:
            for v in domains[m]:
                if v is None:
                    nxt.append((frag, d))
                else:
                    f = "%s:%s" % (m, v)
                    dd = dict(d)
                    dd[m] = v
                    nxt.append(((frag + "/" + f) if frag else f, dd))
        out = nxt
    return out
