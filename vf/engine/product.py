"""
E1 - exhaustive product sweep on the real code.

A *block* is a finite product A x B x C of "parts". A part is a pair (fragment, assignment):
the '/'-joined text it contributes to the vector string and the metric->value mapping it stands
for. Every point of every block is visited exactly once; blocks are cut into tasks over the
flattened A x B index and handed to a fork pool. The check supplies a module-level *visitor*
  visit(acc, block, vec, asg, idx)
which builds the real object from `vec`, compares with its oracle and records into `acc` (a dict
created by new_acc()). Accumulators are merged in task order, so results are deterministic.
"""

from __future__ import print_function

from .. import core, observe


class LazyParts(object):
    """A sequence of parts computed on demand: part(k) -> (fragment, assignment)."""
    lazy = True

    def __init__(self, n, part):
        self.n, self.part = n, part

    def __len__(self):
        return self.n

    def __getitem__(self, k):
        if isinstance(k, slice):
            return [self.part(i) for i in range(*k.indices(self.n))]
        if k < 0:
            k += self.n
        if not 0 <= k < self.n:
            raise IndexError(k)
        return self.part(k)

    def __iter__(self):
        return (self.part(i) for i in range(self.n))


class Block(object):
    """twin: a second family whose prefix is used for the *same* body right after each point
    (v3.0 / v3.1): forces collisions in anything keyed without the minor version."""

    def __init__(self, name, family, A, B=None, C=None, prefix=None, meta=None, twin=None):
        self.name = name
        self.family = family
        self.twin = twin
        self.A = A if getattr(A, "lazy", False) else list(A)
        self.B = list(B) if B is not None else [("", {})]
        self.C = list(C) if C is not None else [("", {})]
        self.prefix = prefix  # None -> family prefix
        self.meta = meta or {}

    def size(self):
        return len(self.A) * len(self.B) * len(self.C) * (2 if self.twin else 1)

    def twin_block(self):
        from ..ref import tables
        t = Block(self.name, self.twin, [], prefix=tables.PREFIX[self.twin], meta=self.meta)
        t.A, t.B, t.C = self.A, self.B, self.C
        return t


_BLOCKS = None
_VISIT = None
_NEWACC = None
_TIER = None

# Depth phases appended to every task (state carried between constructions, see DESIGN 10.2c):
REVISIT = 64            # the task's first points are visited again after everything else
REPEAT = {"quick": 2100, "thorough": 70000}   # the task's first point is visited this many times
HIST_DEPTH = {"quick": 5, "thorough": 6}      # histories over a 4-letter alphabet, one fresh fork each
ENTRY_STRIDE = 16       # every 16th point is also judged on an object from another entry point


def _via(entry, visit, acc, blk, vec, asg, idx):
    observe.ENTRY = entry
    try:
        visit(acc, blk, vec, asg, idx)
    finally:
        observe.ENTRY = "direct"
    acc["via_" + entry] = acc.get("via_" + entry, 0) + 1


def _point(blk, ab, ic):
    """(vector, assignment) of point (ab, ic) of a block."""
    A, B, C = blk.A, blk.B, blk.C
    ia, ib = divmod(ab, len(B))
    fa, da = A[ia]
    fb, db = B[ib]
    fc, dc = C[ic]
    frags = [f for f in (fa, fb, fc) if f]
    asg = dict(da)
    asg.update(db)
    asg.update(dc)
    return blk.prefix + "/".join(frags), asg


def _stopped(acc, stop_at):
    return stop_at is not None and any(c.get("input") == stop_at for c in acc.get("bad", []))


def _task(t, stop_at=None):
    core.reset_ambient()
    bi, lo, hi = t
    blk = _BLOCKS[bi]
    twin = blk.twin_block() if blk.twin else None
    warmed = core.maybe_prior(["E1", blk.name, lo, hi])
    acc = _NEWACC()
    acc["_task"] = t
    acc["prior"] = int(warmed)
    A, B, C = blk.A, blk.B, blk.C
    nB, nC = len(B), len(C)
    prefix = blk.prefix
    visit = _VISIT
    first = []
    for ab in range(lo, hi):
        ia, ib = divmod(ab, nB)
        fa, da = A[ia]
        fb, db = B[ib]
        head = fa if not fb else (fa + "/" + fb if fa else fb)
        if db:
            dab = dict(da)
            dab.update(db)
        else:
            dab = da
        base_idx = ab * nC
        for ic in range(nC):
            fc, dc = C[ic]
            if fc:
                vec = prefix + (head + "/" + fc if head else fc)
                asg = dict(dab)
                asg.update(dc)
            else:
                vec = prefix + head
                asg = dab
            if len(first) < REVISIT:
                first.append((vec, asg, base_idx + ic))
            visit(acc, blk, vec, asg, base_idx + ic)
            if twin is not None:
                visit(acc, twin, twin.prefix + vec[len(prefix):], asg, base_idx + ic)
            k = base_idx + ic
            if k % ENTRY_STRIDE == 5:
                _via(observe.ENTRIES[(k // ENTRY_STRIDE) % len(observe.ENTRIES)], visit, acc, blk, vec, asg, k)
            if _stopped(acc, stop_at):
                return acc
    # depth phase 1: the first points again, now that everything else has been through the library
    n_main = acc.get("n", 0)
    for vec, asg, idx in first:
        visit(acc, blk, vec, asg, idx)
        if twin is not None:
            visit(acc, twin, twin.prefix + vec[len(prefix):], asg, idx)
        if _stopped(acc, stop_at):
            return acc
    # ... and, like the last points of the task, through every other entry point
    last = []
    for ab in range(max(lo, hi - 2), hi):
        for ic in sorted(set([0, nC // 2, nC - 1])):
            vec, asg = _point(blk, ab, ic)
            last.append((vec, asg, ab * nC + ic))
    for vec, asg, idx in first[:8] + last:
        for entry in observe.ENTRIES:
            _via(entry, visit, acc, blk, vec, asg, idx)
        if _stopped(acc, stop_at):
            return acc
    # ... and from a second thread (run to completion: no interleaving, only "not the thread that
    # did everything so far" - thread-local state, per-thread caches with shared bookkeeping)
    if not acc.get("bad"):
        import threading

        failed = []

        def second():
            try:
                core.reset_ambient()     # the default decimal context of the tasks, in this thread too
                for vec, asg, idx in first[:8] + last:
                    visit(acc, blk, vec, asg, idx)
                    if twin is not None:
                        visit(acc, twin, twin.prefix + vec[len(prefix):], asg, idx)
            except BaseException as e:  # noqa - handed to the main thread
                failed.append(e)

        th = threading.Thread(target=second)
        th.start()
        th.join()
        if failed:
            raise failed[0]
        acc["second_thread"] = len(first[:8] + last)
        for c in acc.get("bad", []):
            c.setdefault("thread", "second")
            if "second thread" not in c.get("what", ""):
                c["what"] = "%s  [read from a second thread, after the main thread did the task's sweep]" % c.get("what", "")
        if _stopped(acc, stop_at):
            return acc
    # depth phase 2: one point many times (only the first task of a block in the thorough tier)
    if first and not acc.get("bad"):
        reps = REPEAT.get(_TIER or "quick", REPEAT["quick"])
        if reps > REPEAT["quick"] and lo != 0:
            reps = REPEAT["quick"]
        vec, asg, idx = first[0]
        for _ in range(reps):
            visit(acc, blk, vec, asg, idx)
            if acc.get("bad"):
                break
    acc["depth_visits"] = acc.get("n", 0) - n_main
    for c in acc.get("bad", []):
        c.setdefault("task", [blk.name, lo, hi])
        c.setdefault("tier", _TIER)
    return acc


def _letters(blk):
    """Four points of a block that collide as much as a block allows: its first point, the same
    body under the twin prefix (else the neighbouring point), the middle and the last point."""
    nAB, nC = len(blk.A) * len(blk.B), len(blk.C)
    out = [(0, 0, 0)]
    if blk.twin:
        out.append((0, 0, 1))
    elif nC > 1:
        out.append((0, 1, 0))
    elif nAB > 1:
        out.append((1, 0, 0))
    out.append((nAB // 2, nC // 2, 0))
    out.append((nAB - 1, nC - 1, 0))
    return out


def _hist_task(item, stop_at=None):
    """One history from the initial state (fresh fork): the letters of `seq` visited in order."""
    core.reset_ambient()
    bi, seq = item
    blk = _BLOCKS[bi]
    twin = blk.twin_block() if blk.twin else None
    letters = _letters(blk)
    acc = _NEWACC()
    acc["_task"] = (bi, -1, -1)
    for k in seq:
        ab, ic, tw = letters[k]
        vec, asg = _point(blk, ab, ic)
        if tw:
            _VISIT(acc, twin, twin.prefix + vec[len(blk.prefix):], asg, ab * len(blk.C) + ic)
        else:
            _VISIT(acc, blk, vec, asg, ab * len(blk.C) + ic)
        if acc.get("bad"):
            break
    for c in acc.get("bad", []):
        c.setdefault("task", {"history": [blk.name, list(seq)]})
        c.setdefault("tier", _TIER)
    return acc


# ------------------------------------------------------------------ layout sweeps
# A block with meta["layouts"] is swept once per *layout*: a permutation of the field positions
# from the family "move one field anywhere, then move one field to the end" (all of them). Under
# one layout all points of the block are visited back to back in one process, so whatever the
# library keys on positions (the first eight fields, the fields in the order they appear) meets
# related points - same layout, one metric's value changed - in a row.

def two_move_layouts(n):
    """All distinct permutations of range(n) reachable by moving one element to another position
    and then one element to the end (identity first)."""
    seen, out = set(), []

    def add(p):
        t = tuple(p)
        if t not in seen:
            seen.add(t)
            out.append(t)

    base = list(range(n))
    add(base)
    add(base[::-1])
    for i in range(n):
        for j in range(n):
            p = base[:i] + base[i + 1:]
            p.insert(j, base[i])
            add(p)
            for k in range(n):
                q = [x for x in p if x != p[k]] + [p[k]]
                add(q)
    return out


def _layout_task(t, stop_at=None):
    core.reset_ambient()
    bi, lo, hi = t
    blk = _BLOCKS[bi]
    twin = blk.twin_block() if blk.twin else None
    warmed = core.maybe_prior(["E1-layout", blk.name, lo, hi])
    acc = _NEWACC()
    acc["_task"] = (bi, -1, -1)
    acc["prior"] = int(warmed)
    nAB, nC = len(blk.A) * len(blk.B), len(blk.C)
    points = [_point(blk, ab, ic) + (ab * nC + ic,) for ab in range(nAB) for ic in range(nC)]
    P = blk.prefix
    cache = {}
    for li in range(lo, hi):
        for vec, asg, idx in points:
            f = vec[len(P):].split("/")
            lay = cache.get(len(f))
            if lay is None:
                lay = cache[len(f)] = two_move_layouts(len(f))
            if li >= len(lay):
                continue
            body = "/".join(f[i] for i in lay[li])
            _VISIT(acc, blk, P + body, asg, idx)
            if twin is not None:
                _VISIT(acc, twin, twin.prefix + body, asg, idx)
            if _stopped(acc, stop_at):
                return acc
    for c in acc.get("bad", []):
        c.setdefault("task", {"layouts": [blk.name, lo, hi]})
        c.setdefault("tier", _TIER)
    acc["layout_visits"] = acc.get("n", 0)
    return acc


def _history_items(blocks, tier):
    import itertools
    depth = HIST_DEPTH.get(tier or "quick", HIST_DEPTH["quick"])
    seen, items = set(), []
    for bi, b in enumerate(blocks):
        if b.family in seen or not b.A:
            continue
        seen.add(b.family)
        k = len(_letters(b))
        for seq in itertools.product(range(k), repeat=depth):
            if len(set(seq)) > 1 or seq[0] == 0:
                items.append((bi, seq))
    return items, depth


def run(ctx, blocks, visit, new_acc, tasks_per_block=None):
    """Visit every point of every block. Returns the list of accumulators in task order."""
    global _BLOCKS, _VISIT, _NEWACC, _TIER
    from ..ref import tables

    for b in blocks:
        if b.prefix is None:
            b.prefix = tables.PREFIX[b.family]
    _BLOCKS, _VISIT, _NEWACC, _TIER = blocks, visit, new_acc, ctx.tier
    tasks = []
    ltasks = []
    total = sum(b.size() for b in blocks if not b.meta.get("layouts")) or 1
    for bi, b in enumerate(blocks):
        if b.meta.get("layouts"):
            nl = len(two_move_layouts(b.meta["layouts"]))
            for lo, hi in core.split_range(nl, 32):
                ltasks.append((bi, lo, hi))
            continue
        n = len(b.A) * len(b.B)
        want = tasks_per_block or max(1, min(n, int(round(core.NPROC * 6.0 * b.size() / total)) or 1))
        for lo, hi in core.split_range(n, want):
            tasks.append((bi, lo, hi))
    order = ctx.rot(range(len(tasks)))
    out = core.pool_map(_task, [tasks[i] for i in order], fresh=True)
    accs = [None] * len(tasks)
    for i, a in zip(order, out):
        accs[i] = a
    laccs = core.pool_map(_layout_task, ltasks, fresh=True) if ltasks else []
    items, depth = _history_items([b for b in blocks if not b.meta.get("layouts")], ctx.tier)
    haccs = core.pool_map(_hist_task, items, fresh=True)
    prev = getattr(ctx, "depth_stats", None) or {}
    ctx.depth_stats = {
        "revisited_points_per_task": REVISIT,
        "repetitions_of_first_point_per_task": REPEAT["quick"],
        "repetitions_first_task_of_each_block": REPEAT.get(ctx.tier, REPEAT["quick"]),
        "depth_phase_visits": sum(a.get("depth_visits", 0) for a in accs),
        "histories_from_fresh_process": len(items),
        "history_depth": depth,
        "history_alphabet": "first point, its twin-prefix copy (or neighbour), middle and last point of the first block of each family",
        "history_visits": sum(a.get("n", 0) for a in haccs),
        "tasks_run_after_the_prior_history": sum(a.get("prior", 0) for a in accs),
        "tasks": len(accs),
        "points_also_judged_via_from_rh_vector": sum(a.get("via_rh", 0) for a in accs),
        "points_also_judged_via_parse_cvss_from_text": sum(a.get("via_text", 0) for a in accs),
        "points_also_judged_after_hash_and_compare": sum(a.get("via_hashed", 0) for a in accs),
        "points_also_judged_on_a_str_subclass_argument": sum(a.get("via_strsub", 0) for a in accs),
        "points_also_judged_on_a_copy": sum(a.get("via_copied", 0) for a in accs),
        "points_also_judged_after_a_pickle_round_trip": sum(a.get("via_pickled", 0) for a in accs),
        "points_judged_again_from_a_second_thread": sum(a.get("second_thread", 0) for a in accs),
    }
    for k in ("depth_phase_visits", "histories_from_fresh_process", "history_visits",
              "tasks_run_after_the_prior_history", "tasks", "points_also_judged_via_from_rh_vector",
              "points_also_judged_via_parse_cvss_from_text", "points_also_judged_after_hash_and_compare",
              "points_judged_again_from_a_second_thread", "points_also_judged_on_a_str_subclass_argument",
              "points_also_judged_on_a_copy", "points_also_judged_after_a_pickle_round_trip"):
        ctx.depth_stats[k] += prev.get(k, 0)
    ctx.depth_stats["layout_sweep_visits"] = prev.get("layout_sweep_visits", 0) + sum(a.get("layout_visits", 0) for a in laccs)
    ctx.depth_stats["layouts_per_layout_block"] = dict(
        (b.name, len(two_move_layouts(b.meta["layouts"]))) for b in blocks if b.meta.get("layouts"))
    return accs + list(laccs) + list(haccs)


def run_single_task(blocks, visit, new_acc, name, lo, hi, tier=None):
    """Run one task in this process and return its accumulator."""
    global _BLOCKS, _VISIT, _NEWACC, _TIER
    from ..ref import tables

    for b in blocks:
        if b.prefix is None:
            b.prefix = tables.PREFIX[b.family]
    _BLOCKS, _VISIT, _NEWACC, _TIER = blocks, visit, new_acc, tier
    for bi, b in enumerate(blocks):
        if b.name == name:
            return _task((bi, lo, hi))
    raise core.HarnessError("block %r not found" % name)


def replay_task(blocks, visit, new_acc, case):
    """Re-run, in this (fresh) process, the task that produced `case` up to the failing input.
    Returns (violates, detail)."""
    global _BLOCKS, _VISIT, _NEWACC, _TIER
    from ..ref import tables

    for b in blocks:
        if b.prefix is None:
            b.prefix = tables.PREFIX[b.family]
    _BLOCKS, _VISIT, _NEWACC, _TIER = blocks, visit, new_acc, case.get("tier")
    if isinstance(case["task"], dict) and "layouts" in case["task"]:
        name, lo, hi = case["task"]["layouts"]
        for bi, b in enumerate(blocks):
            if b.name == name:
                acc = _layout_task((bi, lo, hi), stop_at=case["input"])
                hit = [c for c in acc.get("bad", []) if c.get("input") == case["input"]]
                if hit:
                    return True, hit[0].get("what", "")
                return False, "layouts %d..%d of block %s no longer fail on %r" % (lo, hi, name, case["input"])
        raise core.HarnessError("block %r not found for layout replay" % name)
    if isinstance(case["task"], dict):
        name, seq = case["task"]["history"]
        for bi, b in enumerate(blocks):
            if b.name == name:
                acc = _hist_task((bi, seq))
                hit = [c for c in acc.get("bad", []) if c.get("input") == case["input"]]
                if hit:
                    return True, hit[0].get("what", "")
                return False, "history %r of block %s no longer fails on %r" % (seq, name, case["input"])
        raise core.HarnessError("block %r not found for history replay" % name)
    name, lo, hi = case["task"]
    for bi, b in enumerate(blocks):
        if b.name == name:
            acc = _task((bi, lo, hi), stop_at=case["input"])
            hit = [c for c in acc.get("bad", []) if c.get("input") == case["input"]]
            if hit:
                return True, hit[0].get("what", "")
            return False, "the task no longer fails on %r (%d points replayed)" % (case["input"], acc.get("n", 0))
    raise core.HarnessError("block %r not found for task replay" % name)


def parts(metrics, domains, absent_as=None):
    """All assignments of `metrics` over `domains` (dict metric -> list of values) as parts.
    A value None means "metric absent from the vector"."""
    out = [("", {})]
    for m in metrics:
        nxt = []
        for frag, d in out:
            for v in domains[m]:
                if v is None:
                    nxt.append((frag, d))
                else:
                    f = "%s:%s" % (m, v)
                    dd = dict(d)
                    dd[m] = v
                    nxt.append(((frag + "/" + f) if frag else f, dd))
        out = nxt
    return out
