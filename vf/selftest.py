"""MANIFEST.setup_cmd: nothing to build (pure Python); verify the tools the checks rely on."""
import os
import sys

from . import core


def main():
    ok = True
    for p in ("/venv/bin/python",):
        if not os.path.exists(p):
            print("missing", p)
            ok = False
    for d in ("data/vectors", "data/schemas"):
        if not os.path.isdir(os.path.join(core.VERIF, d)):
            print("missing", d)
            ok = False
    for d in ("evidence", "replays"):
        p = os.path.join(core.VERIF, d)
        if not os.path.isdir(p):
            os.makedirs(p)
    print("setup ok" if ok else "setup FAILED")
    return 0 if ok else 1


if __name__ == "__main__":
    sys.exit(main())
