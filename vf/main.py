"""./vcheck <ID> [--tier quick|thorough] [--replay FILE]"""

from __future__ import print_function

import argparse
import importlib
import os
import sys

from . import core


def main(argv=None):
    ap = argparse.ArgumentParser(prog="vcheck")
    ap.add_argument("prop")
    ap.add_argument("--tier", default=os.environ.get("VERIF_TIER") or "quick",
                    choices=["quick", "thorough"])
    ap.add_argument("--replay")
    ap.add_argument("--quiet", action="store_true")
    ap.add_argument("--task", action="store_true", help="with --replay: replay the task prefix")
    a = ap.parse_args(argv)
    prop = a.prop.upper()
    try:
        seed = int(os.environ.get("VERIF_SEED", "0") or 0)
    except ValueError:
        seed = 0
    try:
        module = importlib.import_module("vf.checks.%s" % prop.lower())
    except ImportError as e:
        print("HARNESS-ERROR no check module for %s: %s" % (prop, e), file=sys.stderr)
        return 2
    try:
        if a.replay:
            return core.run_replay(prop, a.replay, module, a.quiet, a.task)
        return core.run_check(prop, a.tier, seed, module)
    except core.HarnessError as e:
        print("HARNESS-ERROR property=%s %s" % (prop, e), file=sys.stderr)
        return 2
    except BaseException as e:  # noqa - a crash of the machinery is never a verdict
        import traceback
        traceback.print_exc()
        print("HARNESS-ERROR property=%s unexpected %s: %s" % (prop, type(e).__name__, e), file=sys.stderr)
        return 2


if __name__ == "__main__":
    sys.exit(main())
