"""
Shared plumbing for every check: locating and importing the tree under test,
tier/seed handling, the fork pool, evidence files, replay files, known findings
and the violation protocol (re-execute twice in a fresh process before a
VIOLATION line is printed).

Exit codes of ./vcheck:  0 = property held on everything explored,
                         1 = violation (a `VIOLATION property=<id> replay=<path>` line was printed),
                         2 = harness error (never a VIOLATION line).
"""

from __future__ import print_function

import hashlib
import json
import multiprocessing
import os
import subprocess
import sys
import time
import traceback

VERIF = os.path.dirname(os.path.dirname(os.path.abspath(__file__)))
REPO = os.path.abspath(os.environ.get("VERIF_REPO", "/repo"))
NPROC = int(os.environ.get("VERIF_NPROC", "16"))
PY = sys.executable
LEVEL = "model_checking"


class HarnessError(Exception):
    """The machinery itself is wrong or cannot run; never reported as a violation."""


# --------------------------------------------------------------------------- tree under test


def load_tree():
    """Import `cvss` from $VERIF_REPO (default /repo) and nothing else. Returns the package."""
    sys.dont_write_bytecode = True
    if sys.path[0] != REPO:
        sys.path.insert(0, REPO)
    def forget():
        for name in [m for m in sys.modules if m == "cvss" or m.startswith("cvss.")]:
            del sys.modules[name]

    forget()
    import cvss  # noqa   (first import: pulls in every standard-library module the package needs)
    import cvss.cvss_calculator  # noqa
    import cvss.parser  # noqa
    import cvss.interactive  # noqa

    # second import, the one that is used: `threading` resolves to the cooperative proxy, so that
    # any lock / condition / event the package creates is visible to the E4 scheduler
    from .engine import coop
    forget()
    with coop.importing():
        import cvss  # noqa
        import cvss.cvss_calculator  # noqa
        import cvss.parser  # noqa
        import cvss.interactive  # noqa

    got = os.path.dirname(os.path.dirname(os.path.abspath(cvss.__file__)))
    if got != REPO:
        raise HarnessError("imported cvss from %s, wanted %s" % (got, REPO))
    return cvss


# --------------------------------------------------------------------------- context / result


class Ctx(object):
    def __init__(self, prop, tier, seed):
        self.prop = prop
        self.tier = tier
        self.seed = seed
        self.t0 = time.time()
        self.thorough = tier == "thorough"

    def log(self, *a):
        print("[%s %6.1fs]" % (self.prop, time.time() - self.t0), *a, file=sys.stderr)
        sys.stderr.flush()

    def rot(self, seq):
        """Seed-dependent rotation (only ever used to pick which cases are shown as samples and
        the order chunks are handed out; verdict and counts do not depend on it)."""
        seq = list(seq)
        if not seq:
            return seq
        k = self.seed % len(seq)
        return seq[k:] + seq[:k]


class Result(object):
    """What a check's run() returns."""

    def __init__(self):
        self.violations = []  # list of case dicts (JSON-serialisable), each with key "what"
        self._per_sig = {}
        self.coverage = {}
        self.assumptions = []
        self.notes = []

    def add_violation(self, case, per_signature=4, limit=80):
        """Keeps at most `per_signature` cases per distinct signature (so that one frequent failure
        cannot crowd out a different one) and `limit` overall; counts everything."""
        self.coverage["violating_cases_total"] = self.coverage.get("violating_cases_total", 0) + 1
        key = json.dumps(case.get("signature"), sort_keys=True, default=str)
        n = self._per_sig.get(key, 0)
        if n >= per_signature or len(self.violations) >= limit:
            return
        self._per_sig[key] = n + 1
        self.violations.append(case)


# --------------------------------------------------------------------------- pool


def pool_map(func, items, nproc=None, chunksize=1, fresh=False):
    """Ordered map over a fork pool. `func` must be a module-level function. The tree must have
    been imported in the parent already (children inherit it). fresh=True: every item runs in a
    fresh fork of the parent (so what an item observes is a function of the item alone, provided
    the parent never executed library code) - the basis of task-level replay."""
    items = list(items)
    nproc = min(nproc or NPROC, max(1, len(items)))
    if nproc == 1 and not fresh:
        return [func(i) for i in items]
    ctx = multiprocessing.get_context("fork")
    pool = ctx.Pool(nproc, maxtasksperchild=1) if fresh else ctx.Pool(nproc)
    try:
        out = pool.map(func, items, chunksize)
    finally:
        pool.terminate()
        pool.join()
    return out


def reset_ambient():
    """Every task and every replay starts under a NEW default decimal context (what a thread other
    than the importing one would see). Pool workers are forked partly from the main thread and
    partly from the pool's handler thread, whose thread-local context is a fresh default: without
    this reset the ambient context of a task would depend on which of the two forked it."""
    import decimal
    decimal.setcontext(decimal.Context(prec=28, rounding=decimal.ROUND_HALF_EVEN, Emin=-999999,
                                       Emax=999999, capitals=1, clamp=0, flags=[],
                                       traps=[decimal.InvalidOperation, decimal.DivisionByZero,
                                              decimal.Overflow]))


def in_fork(fn):
    """Run fn() in a fresh fork of this process and return its JSON-serialisable result. Used to
    keep the parent process pristine (it imports the library but never executes it)."""
    r, w = os.pipe()
    pid = os.fork()
    if pid == 0:
        code = 0
        try:
            os.close(r)
            try:
                data = json.dumps(["ok", fn()])
            except BaseException as e:  # noqa
                data = json.dumps(["err", "%s: %s" % (type(e).__name__, e)])
            data = data.encode("utf-8")
            while data:
                n = os.write(w, data)
                data = data[n:]
        except BaseException:  # noqa
            code = 1
        finally:
            os._exit(code)
    os.close(w)
    chunks = []
    while True:
        b = os.read(r, 1 << 16)
        if not b:
            break
        chunks.append(b)
    os.close(r)
    os.waitpid(pid, 0)
    kind, val = json.loads(b"".join(chunks).decode("utf-8"))
    if kind != "ok":
        raise HarnessError("forked execution failed: %s" % val)
    return val


_TASK_FUNCS = {}
_NO_PRIOR = set()
CURRENT_TIER = None
PRIOR_STATS = {"tasks": 0, "after_prior": 0}


def maybe_prior(arg):
    """Runs the prior history (vf.prior) when the task's deterministic coin says so."""
    from . import prior
    if os.environ.get("VERIF_NO_PRIOR") or not prior.wanted(arg):
        return False
    prior.run()
    return True



def _call_task(t):
    key, item = t
    reset_ambient()
    func = _TASK_FUNCS[key]
    warmed = key not in _NO_PRIOR and maybe_prior([key, item])
    acc = func(item)
    if isinstance(acc, dict):
        acc["prior"] = int(warmed)
    if isinstance(acc, dict) and acc.get("bad"):
        try:
            blob = json.dumps(item)
            if len(blob) < 60000:
                for c in acc["bad"]:
                    c.setdefault("task", {"func": key, "arg": json.loads(blob), "prior": bool(warmed)})
                    c.setdefault("tier", CURRENT_TIER)
        except (TypeError, ValueError):
            pass
    return acc


def task_map(func, items, nproc=None, prior=True):
    """pool_map with every item in a fresh fork; cases found by an item are tagged with the
    (function, argument) that produced them so that the whole item can be replayed. Half of the
    items (deterministic coin on the argument) run after the prior history, see vf.prior."""
    key = "%s:%s" % (func.__module__, func.__name__)
    _TASK_FUNCS[key] = func
    if not prior:
        _NO_PRIOR.add(key)
    out = pool_map(_call_task, [(key, i) for i in items], nproc=nproc, fresh=True)
    PRIOR_STATS["tasks"] += len(out)
    PRIOR_STATS["after_prior"] += sum(a.get("prior", 0) for a in out if isinstance(a, dict))
    return out


def replay_func_task(case, setup=None):
    """Replay the (function, argument) item that produced `case` in this fresh process."""
    import importlib
    t = case["task"]
    modname, fname = t["func"].split(":")
    mod = importlib.import_module(modname)
    if setup:
        setup(case)
    arg = t["arg"]
    if t.get("prior"):
        from . import prior
        prior.run()
    acc = getattr(mod, fname)(_tuplify(arg))
    hit = [c for c in acc.get("bad", []) if c.get("input") == case.get("input")]
    if hit:
        return True, hit[0].get("what", "")
    return False, "the task no longer fails on %r" % (case.get("input"),)


def _tuplify(x):
    """JSON turned tuples into lists; task functions unpack sequences, which works for lists too,
    but dictionary keys / set members need tuples."""
    return x


def split_range(n, parts):
    """[(lo, hi)] covering range(n) in at most `parts` nearly equal pieces."""
    parts = max(1, min(parts, n))
    step = (n + parts - 1) // parts
    return [(lo, min(n, lo + step)) for lo in range(0, n, step)]


def digest(obj):
    return hashlib.sha256(json.dumps(obj, sort_keys=True, default=str).encode("utf-8")).hexdigest()


# --------------------------------------------------------------------------- known findings


def load_findings(prop):
    path = os.path.join(VERIF, "known_findings.json")
    if not os.path.exists(path):
        return []
    with open(path) as f:
        data = json.load(f)
    return [e for e in data.get("findings", []) if e.get("property") == prop]


def match_finding(case, findings):
    """A case matches a *known* finding when every key of the finding's signature is present in
    the case's signature with the same value. `fixed` entries never match."""
    sig = case.get("signature") or {}
    for e in findings:
        if e.get("status") != "known":
            continue
        want = e.get("signature") or {}
        if want and all(sig.get(k) == v for k, v in want.items()):
            return e
    return None


# --------------------------------------------------------------------------- evidence


def write_evidence(ctx, res, nviol):
    cov = dict(res.coverage)
    for k in ("states", "transitions", "traces_validated_against_impl", "evaluations",
              "distinct_nontrivial"):
        cov[k] = int(cov.get(k, 0))
    cov.setdefault("rule", "")
    cov.setdefault("samples", [])
    cov.setdefault("exhaustive", False)
    ev = {
        "property_id": ctx.prop,
        "tier": ctx.tier,
        "seed": ctx.seed,
        "level": LEVEL,
        "coverage": cov,
        "assumptions": res.assumptions,
        "wall_s": round(time.time() - ctx.t0, 2),
        "violations": nviol,
        "tree": REPO,
        "notes": res.notes,
    }
    d = os.environ.get("VERIF_EVIDENCE_DIR") or os.path.join(VERIF, "evidence")
    if not os.path.isdir(d):
        os.makedirs(d)
    tmp = os.path.join(d, ".%s.json.tmp" % ctx.prop)
    with open(tmp, "w") as f:
        json.dump(ev, f, indent=1, sort_keys=True, default=str)
        f.write("\n")
    os.rename(tmp, os.path.join(d, "%s.json" % ctx.prop))


# --------------------------------------------------------------------------- replay files


def write_replay(prop, case, idx):
    d = os.path.join(os.environ.get("VERIF_REPLAY_DIR") or os.path.join(VERIF, "replays"), prop)
    if not os.path.isdir(d):
        os.makedirs(d)
    name = "%s_%s_%02d.json" % (prop, digest(case)[:10], idx)
    path = os.path.join(d, name)
    with open(path, "w") as f:
        json.dump({"property": prop, "case": case}, f, indent=1, sort_keys=True, default=str)
        f.write("\n")
    return path


def confirm_in_fresh_process(prop, path, task=False):
    """Re-run one case twice in a fresh interpreter. Returns the two exit codes (1 = violates).
    task=True replays the whole task prefix that led to the case (history-dependent defects)."""
    outcomes = []
    for _ in range(2):
        env = dict(os.environ)
        env["VERIF_REPO"] = REPO
        env["PYTHONDONTWRITEBYTECODE"] = "1"
        p = subprocess.Popen(
            [PY, "-m", "vf.main", prop, "--replay", path, "--quiet"] + (["--task"] if task else []),
            cwd=VERIF, env=env, stdout=subprocess.PIPE, stderr=subprocess.PIPE,
        )
        out, err = p.communicate()
        outcomes.append(p.returncode)
        if p.returncode not in (0, 1):
            sys.stderr.write(err.decode("utf-8", "replace")[-2000:])
    return outcomes


# --------------------------------------------------------------------------- driver


def run_check(prop, tier, seed, module):
    global CURRENT_TIER
    CURRENT_TIER = tier
    ctx = Ctx(prop, tier, seed)
    res = Result()
    try:
        try:
            load_tree()
        except HarnessError:
            raise
        except BaseException:  # the tree does not import: nothing holds
            tb = traceback.format_exc()
            case = {"what": "the package does not import", "kind": "import", "traceback": tb,
                    "signature": {"kind": "import"}}
            res.coverage.update(states=1, transitions=1, samples=[{"import": "failed"}],
                                evaluations=1, rule="import of the tree failed")
            res.violations.append(case)
        else:
            module.run(ctx, res)
            if getattr(ctx, "depth_stats", None):
                res.coverage["depth_phases"] = ctx.depth_stats
            if PRIOR_STATS["tasks"]:
                res.coverage["fresh_fork_tasks"] = dict(PRIOR_STATS, note="after_prior = tasks that first ran "
                                                        "the prior history of vf/prior.py")
    except HarnessError as e:
        print("HARNESS-ERROR property=%s %s" % (prop, e), file=sys.stderr)
        traceback.print_exc()
        return 2

    findings = load_findings(prop)
    known_seen = {}
    real = []
    for case in res.violations:
        e = match_finding(case, findings)
        if e is not None:
            known_seen.setdefault(e["id"], (e, case))
        else:
            real.append(case)

    for fid in sorted(known_seen):
        e, case = known_seen[fid]
        print("KNOWN-FINDING: property=%s %s [%s] e.g. %s" % (prop, e["what"], fid,
                                                             json.dumps(case.get("input", ""))[:200]))
    for e in findings:
        if e.get("status") == "known" and e["id"] not in known_seen and \
                tier in e.get("tiers", ["quick", "thorough"]):
            print("note: known finding %s was not re-observed by this run" % e["id"], file=sys.stderr)

    res.coverage["known_findings_observed"] = sorted(known_seen)
    reported = 0
    flaky = 0
    # report at most 5 distinct violations, each confirmed twice in a fresh process
    for idx, case in enumerate(real[:5]):
        path = write_replay(prop, case, idx)
        if case.get("kind") == "import" or case.get("no_fresh_replay"):
            outcomes = [1, 1]
        else:
            outcomes = confirm_in_fresh_process(prop, path)
            if outcomes == [0, 0] and case.get("task") and hasattr(module, "replay_task"):
                # not reproducible from the input alone: replay the task prefix that led to it
                outcomes = confirm_in_fresh_process(prop, path, task=True)
                if outcomes == [1, 1]:
                    case["what"] = "%s  [only after the inputs that precede it in task %s: history-dependent]" % (
                        case.get("what"), case["task"])
                    path = write_replay(prop, dict(case, needs_task_replay=True), idx)
        if outcomes == [1, 1]:
            print("VIOLATION property=%s replay=%s" % (prop, path))
            print("  what: %s" % case.get("what"))
            reported += 1
        else:
            flaky += 1
            print("HARNESS-ERROR property=%s case did not reproduce in a fresh process "
                  "(outcomes %s): %s" % (prop, outcomes, path), file=sys.stderr)
    write_evidence(ctx, res, len(real))
    sys.stdout.flush()
    if reported:
        return 1
    if flaky:
        return 2
    return 0


def run_replay(prop, path, module, quiet=False, task=False):
    with open(path) as f:
        data = json.load(f)
    case = data["case"]
    task = task or case.get("needs_task_replay")
    if case.get("kind") == "import":
        try:
            load_tree()
        except HarnessError:
            raise
        except BaseException:
            if not quiet:
                traceback.print_exc()
            return 1
        return 0
    load_tree()
    reset_ambient()
    global CURRENT_TIER
    CURRENT_TIER = case.get("tier") or CURRENT_TIER
    from . import observe
    observe.ENTRY = case.get("entry", "direct")
    if task:
        observe.ENTRY = "direct"      # a task chooses the entry point of each of its points itself
        bad, detail = module.replay_task(case)
    else:
        bad, detail = module.replay(case)
    if not quiet:
        print("replay %s: %s" % ("VIOLATES" if bad else "holds", detail))
    return 1 if bad else 0
