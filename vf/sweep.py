"""Accumulator helpers shared by the product-sweep checks."""

KEEP = 6  # counter-examples kept per task


def new_acc():
    return {"n": 0, "calls": 0, "cmp": 0, "nontrivial": 0, "bad": [], "nbad": 0,
            "outcomes": set(), "samples": [], "extra": {}}


def bad(acc, case):
    from . import observe
    if observe.ENTRY != "direct" and "entry" not in case:
        case["entry"] = observe.ENTRY
        case["what"] = "%s%s" % (case.get("what", ""), observe.via())
    acc["nbad"] += 1
    if len(acc["bad"]) < KEEP:
        acc["bad"].append(case)


def merge(accs):
    tot = {"n": 0, "calls": 0, "cmp": 0, "nontrivial": 0, "bad": [], "nbad": 0,
           "outcomes": set(), "samples": [], "per_block": {}}
    for a in accs:
        for k in ("n", "calls", "cmp", "nontrivial", "nbad"):
            tot[k] += a[k]
        tot["bad"] += a["bad"]
        tot["outcomes"] |= a["outcomes"]
        tot["samples"] += a["samples"][:2]
    return tot


def fill(res, ctx, tot, blocks, rule, exhaustive, nsamples=6):
    cov = res.coverage
    cov["states"] = cov.get("states", 0) + tot["n"]
    cov["transitions"] = cov.get("transitions", 0) + tot["calls"]
    cov["traces_validated_against_impl"] = cov.get("traces_validated_against_impl", 0) + tot["cmp"]
    cov["evaluations"] = cov.get("evaluations", 0) + tot["n"]
    cov["distinct_nontrivial"] = cov.get("distinct_nontrivial", 0) + tot["nontrivial"]
    cov["distinct_outcomes"] = cov.get("distinct_outcomes", 0) + len(tot["outcomes"])
    cov["rule"] = (cov.get("rule", "") + " " + rule).strip()
    cov["exhaustive"] = bool(exhaustive) and cov.get("exhaustive", True)
    cov.setdefault("blocks", {}).update(dict((b.name, b.size()) for b in blocks))
    cov.setdefault("samples", [])
    cov["samples"] += ctx.rot(tot["samples"])[:nsamples]
    for c in tot["bad"]:
        res.add_violation(c)
    cov["violating_cases_total"] = cov.get("violating_cases_total", 0) - min(len(tot["bad"]), 40) \
        + tot["nbad"] if tot["nbad"] else cov.get("violating_cases_total", 0)
