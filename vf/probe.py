# -*- coding: utf-8 -*-
"""
E5 probe program. Python 2.7 / 3.x common subset, no dependencies besides the tree under test and
vf/ref/tables.py. Enumerates its inputs itself, evaluates them on the real library and prints one
sha256 per chunk of canonical result lines:

    <section> <chunk index> <number of cases> <sha256>

Usage:  python probe.py REPO TIER [--sections a,b,c] [--dump SECTION CHUNK] [--decimal PREC ROUNDING]
Everything is serialised with json.dumps(sort_keys=True) (never repr: u'' prefixes differ).
"""

from __future__ import print_function, unicode_literals

import hashlib
import io
import json
import os
import sys

HERE = os.path.dirname(os.path.dirname(os.path.abspath(__file__)))
CHUNK = 500
PY2 = sys.version_info[0] == 2


def setup(repo, dec=None):
    sys.dont_write_bytecode = True
    sys.path.insert(0, HERE)
    sys.path.insert(0, repo)
    if dec:
        import decimal
        decimal.setcontext(decimal.Context(prec=int(dec[0]), rounding=getattr(decimal, dec[1])))
    import cvss  # noqa
    import cvss.parser  # noqa
    import cvss.cvss_calculator  # noqa
    if dec:
        import decimal
        decimal.setcontext(decimal.Context(prec=int(dec[0]), rounding=getattr(decimal, dec[1])))
    got = os.path.dirname(os.path.dirname(os.path.abspath(cvss.__file__)))
    if os.path.realpath(got) != os.path.realpath(repo):
        raise SystemExit("probe imported cvss from %s, wanted %s" % (got, repo))


def msg(e):
    return e.args[0] if e.args else ""


def J(x):
    return json.dumps(x, sort_keys=True)


# ------------------------------------------------------------------------------ observations

def obs_vector(cls, v):
    try:
        o = cls(v)
    except Exception as e:  # noqa
        return ["EXC", type(e).__name__, msg(e), [c.__name__ for c in type(e).__mro__[:3]]]
    try:
        out = ["OK", o.scores(), o.severities(), o.clean_vector(), o.rh_vector()]
        if hasattr(o, "temporal_vector"):
            out += [o.temporal_vector(), o.environmental_vector()]
        for s in (False, True):
            for m in (False, True):
                d = o.as_json(sort=s, minimal=m)
                out.append(J(d))
                if s:
                    out.append(list(d.keys()))
    except Exception as e:  # noqa - an accessor failing on a constructed object is an observation too
        return ["ACCESSOR-EXC", type(e).__name__, msg(e)]
    return out


def obs_rh(cls, text):
    try:
        o = cls.from_rh_vector(text)
    except Exception as e:  # noqa
        return ["EXC", type(e).__name__, msg(e)]
    return ["OK", o.scores(), o.clean_vector()]


def obs_text(text):
    from cvss.parser import parse_cvss_from_text
    try:
        r = parse_cvss_from_text(text)
    except Exception as e:  # noqa
        return ["EXC", type(e).__name__, msg(e)]
    return ["OK", [[type(o).__name__, o.vector, o.scores()] for o in r]]   # as a LIST: order matters


def obs_builder(version, allm, nc, answers):
    import cvss.interactive as I
    text = "".join(a + "\n" for a in answers)
    if PY2:
        import StringIO
        stdin = StringIO.StringIO(text.encode("utf-8"))
        out = StringIO.StringIO()
    else:
        stdin = io.StringIO(text)
        out = io.StringIO()
    old = sys.stdin, sys.stdout
    sys.stdin, sys.stdout = stdin, out
    try:
        try:
            r = ["OK", I.ask_interactively(version, allm, nc)]
        except EOFError:
            r = ["EOF"]
        except Exception as e:  # noqa
            r = ["EXC", type(e).__name__, msg(e)]
    finally:
        sys.stdin, sys.stdout = old
    o = out.getvalue()
    if PY2 and not isinstance(o, type("")):
        o = o.decode("utf-8")
    return r + [o]


def obs_cli(argv, stdin_text=""):
    import cvss.cvss_calculator as C
    if PY2:
        import StringIO
        stdin, out, err = StringIO.StringIO(stdin_text.encode("utf-8")), StringIO.StringIO(), StringIO.StringIO()
        argv = [a.encode("utf-8") for a in argv]
        name = b"cvss_calculator"
    else:
        stdin, out, err = io.StringIO(stdin_text), io.StringIO(), io.StringIO()
        name = "cvss_calculator"
    old = sys.argv, sys.stdin, sys.stdout, sys.stderr
    sys.argv, sys.stdin, sys.stdout, sys.stderr = [name] + argv, stdin, out, err
    status = 0
    try:
        try:
            C.main()
        except SystemExit as e:
            status = e.code
        except BaseException as e:  # noqa
            status = "EXC %s %s" % (type(e).__name__, msg(e))
    finally:
        sys.argv, sys.stdin, sys.stdout, sys.stderr = old
    o, e2 = out.getvalue(), err.getvalue()
    if PY2:
        o = o if isinstance(o, type("")) else o.decode("utf-8")
        e2 = e2 if isinstance(e2, type("")) else e2.decode("utf-8")
    o = "\n".join(l.rstrip() for l in o.split("\n"))
    return [status, o, e2[:200]]


# ------------------------------------------------------------------------------ input enumeration

def product(doms):
    out = [[]]
    for d in doms:
        out = [x + [v] for x in out for v in d]
    return out


def spell(T, fam, asg, order=None):
    order = order or [m for m in T.METRICS[fam] if m in asg]
    return T.PREFIX[fam] + "/".join("%s:%s" % (m, asg[m]) for m in order)


def vectors(T, tier):
    """[(family, vector)]: all base assignments (v4: a stride in the quick tier) + every single
    optional metric value over three base vectors + covering combinations."""
    out = []
    for fam in T.FAMILIES:
        tab = T.METRICS[fam]
        mand = T.MANDATORY[fam]
        bases = product([tab[m] for m in mand])
        stride = 1
        if fam == "4.0":
            stride = 7 if tier == "thorough" else 97
        elif tier != "thorough" and fam in ("3.0",):
            stride = 3
        for i in range(0, len(bases), stride):
            out.append((fam, spell(T, fam, dict(zip(mand, bases[i])))))
        picks = [bases[0], bases[len(bases) // 2], bases[-1]]
        for b in picks:
            basg = dict(zip(mand, b))
            for m in T.OPTIONAL[fam]:
                for v in tab[m]:
                    out.append((fam, spell(T, fam, dict(basg, **{m: v}))))
        # covering array over all metrics, several orders
        names = list(tab)
        for k in range(60 if tier == "thorough" else 24):
            asg = {}
            for i, m in enumerate(names):
                if m in mand or (k + 2 * i) % 5 >= 2 or k % 7 == 3:
                    asg[m] = tab[m][(k + i) % len(tab[m])]
            order = [m for m in names if m in asg]
            if k % 3 == 1:
                order = order[::-1]
            elif k % 3 == 2:
                order = order[1::2] + order[0::2]
            out.append((fam, spell(T, fam, asg, order)))
    return out


BAD_FIELDS = ["", "AV", "AV:", ":N", "AV:N:N", "av:n", " AV:N", "AV:N ", "AV=N", "X", "CVSS:3.1", "AV:NN"]
BAD_PREFIX = ["CVSS:3.2/", "CVSS:3.10/", "cvss:3.1/", "CVSS:3.1", "", "/", "CVSS:4.1/", "CVSS:2.0/",
              "CVSS:3.01/", "CVSS:3.00/", "CVSS:04.0/", "CVSS:4.00/",
              # decimal digits of other scripts (value 0 or 1), some known to the Unicode database
              # of newer interpreters only (3.7, 3.8, 3.9, 3.12)
              "CVSS:3.\u0661/", "CVSS:3.\uff11/", "CVSS:3.\u0966/", "CVSS:\uff13.1/", "CVSS:4.\uff10/",
              "CVSS:3.\U00011d51/", "CVSS:3.\U0001e141/", "CVSS:3.\U0001fbf1/", "CVSS:3.\U00011f51/"]


def invalid_strings(T, tier):
    out = []
    for fam in T.FAMILIES:
        tab = T.METRICS[fam]
        mand = T.MANDATORY[fam]
        P = T.PREFIX[fam]
        full = dict((m, tab[m][-1]) for m in tab)
        for asg in (dict((m, tab[m][0]) for m in mand), full):
            f = ["%s:%s" % (m, asg[m]) for m in tab if m in asg]
            n = len(f)
            cand = []
            for i in range(n):
                cand.append(f[:i] + f[i + 1:])
                cand.append(f[:i] + [f[i]] + f[i:])
                for b in BAD_FIELDS:
                    cand.append(f[:i] + [b] + f[i + 1:])
                    cand.append(f[:i] + [b] + f[i:])
                if i + 1 < n:
                    g = list(f)
                    g[i], g[i + 1] = g[i + 1], g[i]
                    cand.append(g)
            cand.append(f + [""])
            cand.append(f[:1])                       # everything but one metric missing
            cand.append(f[:2])
            cand.append(f[2:])                       # two mandatory metrics missing
            cand.append(f[1:3] + f[5:])
            cand.append(f[::-1][:len(f) - 3])
            for c in cand:
                out.append(P + "/".join(c))
            for bp in BAD_PREFIX:
                out.append(bp + "/".join(f))
        out += ["", " ", "/", ":", P, P[:-1]]
    chars = ["é", "：", "\t", "\n", "\0", "ａ"]
    base = "AV:N/AC:L/Au:N/C:P/I:P/A:P"
    for c in chars:
        for i in (0, 3, 5, len(base)):
            out.append(base[:i] + c + base[i:])
            out.append("CVSS:3.1/" + base[:i] + c + base[i:])
    seen, uniq = set(), []
    for s in out:
        if s not in seen:
            seen.add(s)
            uniq.append(s)
    return uniq


RH_TOKENS = ["7.5", "10.0", "0.0", "9.8", "10", "7", "7.50", "07.5", "+7.5", "7.5e0", " 7.5", "7.5 ", "", " ",
             "x", "7,5", "7.5.1", "0x7", "None", "nan", "inf", "1e400", "-0.0", ".5", "5."]


def texts(T, tier):
    toks = ["AV:N/AC:L/Au:N/C:P/I:P/A:P", "AV:L/AC:H/Au:M/C:N/I:P/A:C/E:U/RL:W/CDP:L/TD:H/AR:M",
            "A:P/I:P/C:P/Au:N/AC:L/AV:N", "CVSS:3.0/AV:N/AC:L/PR:N/UI:N/S:U/C:H/I:H/A:H",
            "CVSS:3.1/AV:N/AC:L/PR:N/UI:N/S:U/C:H/I:H/A:H",
            "CVSS:3.1/AV:P/AC:H/PR:H/UI:R/S:C/C:L/I:N/A:L/E:P/RL:O/CR:H/MAV:N/MS:U",
            "CVSS:3.1/AV:N/AC:L/PR:N/UI:N/S:U/C:H/I:H/A:H/E:X",
            "CVSS:4.0/AV:N/AC:L/AT:N/PR:N/UI:N/VC:H/VI:H/VA:H/SC:N/SI:N/SA:N",
            "AV:N/AC:L/Au:N/C:P/I:P/A:X", "CVSS:3.2/AV:N/AC:L/PR:N/UI:N/S:U/C:H/I:H/A:H",
            "AV:A/AC:M/Au:S/C:C/I:N/A:N", "CVSS:3.1/AV:L/AC:L/PR:L/UI:R/S:U/C:L/I:L/A:L",
            "AV:N/AC:H/Au:N/C:N/I:N/A:C/E:F",
            " ", ".", "\n", "x", "/", "7.5/", "CVSS:3.1/", "é",
            # prefixes a later release might learn to understand: whatever is made of them is made
            # of them on every interpreter
            "CVSS:2.0/AV:N/AC:L/Au:N/C:P/I:P/A:P"]
    out = list(toks)
    for a in toks:
        for b in toks:
            out.append(a + b)
            out.append(a + " " + b)
    vs = toks[:13]
    # many vectors in one text: the order of the result list is observable
    for k in range(len(vs)):
        rot = vs[k:] + vs[:k]
        out.append(" ".join(rot))
        out.append(", ".join(rot[:6]))
        out.append("\n".join(rot[::-1][:8]))
        if tier == "thorough":
            for j in range(2, 12):
                out.append(" ".join(rot[:j]))
    return out


def builder_cases(T, tier):
    out = []
    for fam, ver in (("2", 2), ("3.0", 3.0), ("3.1", 3.1), ("4.0", 4.0)):
        tab = T.METRICS[fam]
        for allm in (False, True):
            ms = list(tab) if allm else list(T.MANDATORY[fam])
            for nc in (True, False):
                for first in ("first", "last"):
                    # a long stream of all legal tokens of the version: each question skips the
                    # tokens it does not accept (re-ask) and takes the first it does
                    stream = []
                    toks = []
                    for m in tab:
                        for v in (tab[m] if first == "first" else tab[m][::-1]):
                            if v not in toks:
                                toks.append(v)
                    for _ in range(len(ms) + 1):
                        stream += toks
                    out.append((ver, allm, nc, stream))
                out.append((ver, allm, nc, []))
                out.append((ver, allm, nc, ["?", "", " "]))
                if first == "last":
                    # refused answers that are not ASCII (bytes on 2.7, text on 3.x), then legal ones:
                    # whatever the builder does with a refused answer must work for these too
                    out.append((ver, allm, nc, ["\u00e9", "N\u0301", "\u03a9 \u00df", "\u4e2d"] + stream))
                low = []
                for _ in range(len(ms) + 1):
                    low += [t.lower() for t in toks]
                out.append((ver, allm, nc, low))
    return out


def cli_cases(T, tier):
    vecs = ["AV:N/AC:L/Au:N/C:P/I:P/A:P", "AV:L/AC:H/Au:M/C:N/I:N/A:N/E:U/TD:N",
            "CVSS:3.0/AV:N/AC:L/PR:N/UI:N/S:U/C:H/I:H/A:H",
            "CVSS:3.1/AV:N/AC:H/PR:N/UI:R/S:C/C:H/I:L/A:N/E:U/RL:O/RC:U/CR:H/MAV:P",
            "CVSS:4.0/AV:N/AC:L/AT:N/PR:N/UI:N/VC:H/VI:H/VA:H/SC:H/SI:H/SA:H",
            "CVSS:4.0/AV:A/AC:L/AT:N/PR:L/UI:P/VC:L/VI:H/VA:N/SC:N/SI:L/SA:N/E:P/CR:M/MSI:S/U:Red",
            "x", "AV:N", "CVSS:3.1/", "CVSS:4.0/AV:N", "AV:N/AC:L/Au:N/C:P/I:P/A:P/"]
    out = []
    vflags = [[], ["-2"], ["-3"], ["-4"], ["-2", "-3"], ["-3", "-4"], ["-2", "-4"], ["-2", "-3", "-4"]]
    oflags = [[], ["-j"], ["-a"], ["-n"], ["-j", "-a", "-n"]]
    for vf in vflags:
        for of in oflags:
            for v in vecs:
                out.append((vf + of + ["-v", v], ""))
                if len(vf) <= 1:
                    out.append((vf + of + ["--vector=" + v], ""))
            if len(vf) <= 1:
                out.append((vf + of, ""))
                out.append((vf + of, "N\nL\n"))
    # other spellings of the same options: clustered short options, attached values, abbreviations
    for v in vecs[:7]:
        out.append((["-2n", "-v", v], ""))
        out.append((["-nj", "-v", v], ""))
        out.append((["-4nj", "-v", v], ""))
        out.append((["-v" + v], ""))
        out.append((["-3", "-v" + v, "-j"], ""))
        out.append((["--vec", v], ""))
        out.append((["--vect=" + v, "--js"], ""))
        out.append((["--no-col", "-v", v], ""))
        out.append((["--no-colors", "--json", "--vector", v], ""))
    out.append((["-na"], "N\nL\n"))
    out.append((["-2na"], ""))
    out.append((["--al", "--no-c"], "N\n"))
    return out


def short(x):
    """Long strings inside a result are replaced by head, length and digest."""
    if isinstance(x, (list, tuple)):
        return [short(y) for y in x]
    if isinstance(x, dict):
        return dict((k, short(v)) for k, v in x.items())
    if PY2 and isinstance(x, str):
        x = x.decode("utf-8")
    if isinstance(x, type("")) and len(x) > 300:
        return [x[:60], len(x), hashlib.sha256(x.encode("utf-8")).hexdigest()[:16]]
    return x


class Text(type("")):
    """A subclass of the text type whose str()/repr() are not its characters."""

    def __str__(self):
        return "Text.member"

    def __repr__(self):
        return "<Text>"


def types_cases(T, tier):
    """Arguments and objects that are not plain: a subclass of the text type as argument, objects
    after copy / deepcopy / a pickle round trip, instances of a trivial subclass."""
    import copy
    import pickle
    import cvss
    from cvss.parser import parse_cvss_from_text
    C = {"2": cvss.CVSS2, "3.0": cvss.CVSS3, "3.1": cvss.CVSS3, "4.0": cvss.CVSS4}
    SUB = dict((k, type(str("Finding"), (c,), {})) for k, c in C.items())
    out = []
    vs = [(f, v) for f, v in vectors(T, "quick")][::53][:60] + [("2", "AV:N"), ("3.1", "CVSS:3.1/AV:N"), ("4.0", "x")]

    def nomsg(o):
        # error *messages* echo the argument through format(), which treats a subclass of the text
        # type differently on 2.7 and 3.x - that is this probe's Text class, not the library
        return [o[0], o[1]] + list(o[3:]) if o and o[0] == "EXC" else o

    def one(f, v):
        cls = C[f]
        plain = obs_vector(cls, v)
        res = [f, v, nomsg(obs_vector(cls, Text(v))) == nomsg(plain),
               nomsg(obs_rh(cls, Text("0.0/" + v))) == nomsg(obs_rh(cls, "0.0/" + v)),
               obs_vector(SUB[f], v) == plain]
        if f != "4.0":
            res.append(obs_text(Text("see " + v + ".")) == obs_text("see " + v + "."))
        if plain[0] == "OK":
            o = cls(v)
            for p in (copy.copy(o), copy.deepcopy(o), pickle.loads(pickle.dumps(o, 2)), SUB[f](v)):
                res.append([p == o, o == p, hash(p) == hash(o), p.clean_vector() == o.clean_vector(),
                            p.scores() == o.scores(), J(p.as_json()) == J(o.as_json())])
        return res
    for f, v in vs:
        out.append((lambda f=f, v=v: one(f, v)))
    return out


def scale_cases(T, tier):
    """(label, thunk): inputs whose size, not whose content, is the point. What an interpreter does
    with them (integer-string limits, recursion depth, regular-expression engines, buffer sizes)
    must not show."""
    import cvss
    ALLC = [cvss.CVSS2, cvss.CVSS3, cvss.CVSS4]
    v2 = "AV:N/AC:L/Au:N/C:P/I:P/A:P"
    b3 = "AV:N/AC:L/PR:N/UI:N/S:U/C:H/I:H/A:H"
    v4 = "CVSS:4.0/AV:N/AC:L/AT:N/PR:N/UI:N/VC:H/VI:H/VA:H/SC:N/SI:N/SA:N"
    out = []
    strings = [
        ("v3 minor 5000 digits", "CVSS:3." + "1" * 5000 + "/" + b3),
        ("v3 minor 0 x 5000 + 1", "CVSS:3." + "0" * 5000 + "1/" + b3),
        ("v3 major 5000 digits", "CVSS:" + "3" * 5000 + ".1/" + b3),
        ("v4 minor 5000 zeros", "CVSS:4." + "0" * 5000 + "/" + v4[9:]),
        ("v2 value 20000 characters", v2[:-1] + "P" * 20000),
        ("v2 3000 fields", "/".join([v2] * 500)),
        ("v3 3000 empty fields", "CVSS:3.1/" + b3 + "/" * 3000),
        ("v4 metric name 10000 characters", v4 + "/" + "S" * 10000 + ":P"),
        ("colons", ":" * 20000), ("slashes", "/" * 20000),
        ("v3.1 all metrics", "CVSS:3.1/" + b3 + "/E:X/RL:O/RC:X/CR:H/IR:X/AR:L/MAV:N/MAC:X/MPR:L/MUI:X/MS:C/MC:X/MI:N/MA:X"),
        ("v4 all metrics", v4 + "/E:P/CR:H/IR:X/AR:L/MAV:A/MAC:X/MAT:P/MPR:X/MUI:P/MVC:X/MVI:N/MVA:X/MSC:L/MSI:S/MSA:X"
                                "/S:P/AU:X/R:I/V:X/RE:M/U:Amber"),
    ]
    for label, s in strings:
        out.append((lambda label=label, s=s: [label] + [short(obs_vector(c, s)) for c in ALLC]))
        out.append((lambda label=label, s=s: [label, "rh"] + [short(obs_rh(c, "7.5/" + s)) for c in ALLC]))
    for label, tok in [("5000 ones", "1" * 5000), ("7.5 and 5000 zeros", "7.5" + "0" * 5000),
                       ("0. 5000 zeros 1", "0." + "0" * 5000 + "1"), ("1e5000", "1e5000"), ("1e-5000", "1e-5000"),
                       ("7.5 e 5000 zeros", "7.5e" + "0" * 5000), ("5000 sevens . 5", "7" * 5000 + ".5"),
                       ("minus 5000 blanks", " " * 5000 + "7.5"), ("plus signs", "+" * 5000 + "7.5")]:
        for v in (v2, "CVSS:3.1/" + b3, v4):
            out.append((lambda label=label, tok=tok, v=v: [label, v] + [short(obs_rh(c, tok + "/" + v)) for c in ALLC]))
    many = []
    for c in "NPC":
        for i in "NPC":
            for a in "NPC":
                for e in ("U", "POC", "F", "H", "ND"):
                    many.append("AV:N/AC:L/Au:N/C:%s/I:%s/A:%s/E:%s" % (c, i, a, e))
    for label, t in [("135 distinct v2 twice", " ".join(many + many)),
                     ("v3 then 100000 filler then v2", "CVSS:3.1/" + b3 + " " + "y" * 100000 + " " + v2),
                     ("200000 A", "A" * 200000), ("AV:N/ x 30000", "AV:N/" * 30000),
                     ("300 glued v2 then one", (v2 + "/") * 300 + " " + v2),
                     ("CVSS:3.1/ x 2000 then body", "CVSS:3.1/" * 2000 + b3)]:
        out.append((lambda label=label, t=t: [label, short(obs_text(t))]))
    for ver, allm, first in ((2, False, "AV"), (3.1, False, "AV"), (4.0, True, "AV"), (3.0, True, "AV")):
        out.append((lambda ver=ver, allm=allm: ["1500 refused answers", ver, allm,
                                                 short(obs_builder(ver, allm, True, ["?"] * 1500 + ["N", "L"]))]))
        out.append((lambda ver=ver, allm=allm: ["answer line of 5000 characters", ver, allm,
                                                 short(obs_builder(ver, allm, True, ["Q" * 5000 + "N", "N", "L"]))]))
    out.append((lambda: ["cli long vector", short(obs_cli(["-v", "CVSS:3." + "1" * 5000 + "/" + b3]))]))
    out.append((lambda: ["cli -4 long metric", short(obs_cli(["-4", "-j", "-v", v4 + "/" + "S" * 10000 + ":P"]))]))
    return out


# ------------------------------------------------------------------------------ sections

def section_cases(T, name, tier):
    import cvss
    C = {"2": cvss.CVSS2, "3.0": cvss.CVSS3, "3.1": cvss.CVSS3, "4.0": cvss.CVSS4}
    ALLC = [cvss.CVSS2, cvss.CVSS3, cvss.CVSS4]
    if name == "vectors":
        return [(lambda f=f, v=v: [f, v, obs_vector(C[f], v)]) for f, v in vectors(T, tier)]
    if name == "invalid":
        return [(lambda s=s: [s] + [obs_vector(c, s) for c in ALLC]) for s in invalid_strings(T, tier)]
    if name == "rh":
        vs = [v for f, v in vectors(T, "quick")][::37] + ["x", "AV:N", "CVSS:3.1/AV:N"]
        def own_score_tokens(f, v):
            # spellings of the vector's own base score with more digits than str(float) keeps on 2.7
            try:
                b = C[f](v).scores()[0]
            except Exception:  # noqa
                return []
            r = repr(b)
            return [r + "000000000001", r + "0000000000000001", "%.15f" % (b - 4e-15) if b > 0 else "0.000000000000004",
                    r + "e0", "%.3f" % b]
        fv = [(f, v) for f, v in vectors(T, "quick")][::37]
        return [(lambda t=t, v=v: [t, v] + [obs_rh(c, t + "/" + v) for c in ALLC]) for v in vs for t in RH_TOKENS] + \
               [(lambda t=t: [t] + [obs_rh(c, t) for c in ALLC]) for t in RH_TOKENS] + \
               [(lambda f=f, v=v: [v] + [[t, obs_rh(C[f], t + "/" + v)] for t in own_score_tokens(f, v)]) for f, v in fv]
    if name == "texts":
        return [(lambda t=t: [t, obs_text(t)]) for t in texts(T, tier)]
    if name == "builder":
        return [(lambda c=c: [c[0], c[1], c[2], len(c[3]), obs_builder(*c)]) for c in builder_cases(T, tier)]
    if name == "cli":
        return [(lambda c=c: [c[0], obs_cli(*c)]) for c in cli_cases(T, tier)]
    if name == "scale":
        return scale_cases(T, tier)
    if name == "types":
        return types_cases(T, tier)
    raise SystemExit("unknown section " + name)


SECTIONS = ["vectors", "invalid", "rh", "texts", "builder", "cli", "scale", "types"]


def main(argv):
    repo, tier = argv[0], argv[1]
    sections, dump, dec = SECTIONS, None, None
    i = 2
    while i < len(argv):
        if argv[i] == "--sections":
            sections = argv[i + 1].split(",")
            i += 2
        elif argv[i] == "--dump":
            dump = (argv[i + 1], int(argv[i + 2]))
            i += 3
        elif argv[i] == "--decimal":
            dec = (argv[i + 1], argv[i + 2])
            i += 3
        else:
            raise SystemExit("bad argument " + argv[i])
    setup(repo, dec)
    from vf.ref import tables as T
    w = sys.stdout
    for name in sections:
        if dump and dump[0] != name:
            continue
        cases = section_cases(T, name, tier)
        for c0 in range(0, len(cases), CHUNK):
            ci = c0 // CHUNK
            if dump and dump[1] != ci:
                continue
            lines = [J(f()) for f in cases[c0:c0 + CHUNK]]
            if dump:
                for ln in lines:
                    w.write(ln + "\n")
            else:
                h = hashlib.sha256("\n".join(lines).encode("utf-8")).hexdigest()
                w.write("%s %d %d %s\n" % (name, ci, len(lines), h))
    w.flush()


if __name__ == "__main__":
    main([a if not PY2 or isinstance(a, type("")) else a.decode("utf-8") for a in sys.argv[1:]])
