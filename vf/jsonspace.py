"""Input spaces shared by the JSON checks C10 and C11 (as_json is called with all four option
pairs on every point)."""

from . import observe, spaces
from .engine.product import Block, parts
from .ref import tables as T


def v4_single_optionals():
    """Every value of every optional v4 metric, alone."""
    out = [("", {})]
    for m in T.OPTIONAL["4.0"]:
        for v in T.V4[m]:
            out.append(("%s:%s" % (m, v), {m: v}))
    return out


def blocks(tier):
    S = spaces
    b = []
    if tier == "thorough":
        b += S.v2_blocks("thorough")
        b += S.v3_blocks("quick")
        b += S.v4_blocks("quick", "short", ("wide", "wide"))
    else:
        b.append(Block("v2.base_x_temporal", "2", S.v2_base_all(), S.ABSENT + S.v2_temporal_effective()))
        b.append(Block("v2.skeleton_x_env", "2", S.v2_base_skeleton(), S.v2_temporal_skeleton()[:2],
                       S.ABSENT + S.v2_env_effective()))
        b.append(Block("v2.base_x_env_skeleton", "2", S.v2_base_all(), S.ABSENT, S.v2_env_skeleton()))
        sp = S.v2_spelling_blocks()
        sp[1].C = S.thin(sp[1].C, 5)
        b += sp
        b.append(Block("v3.base_x_temporal", "3.0", S.v3_base_all(),
                       S.v3_temporal_skeleton(6) + S.thin(S.v3_temporal_spellings(), 5), twin="3.1"))
        b.append(Block("v3.inherit", "3.0", S.v3_base_all(), S.v3_temporal_skeleton(2)[1:],
                       S.v3_req_all(), twin="3.1"))
        b.append(Block("v3.override", "3.0", S.v3_modified_over_complementary_base(),
                       S.v3_temporal_skeleton(2), S.thin(S.v3_req_all(), 3), twin="3.1"))
        v4 = S.v4_blocks("quick", "short", ("min", "mid"))
        v4[1].A = S.thin(v4[1].A, 2)
        b += v4
    # v4: every optional metric value alone, over a macrovector-covering base set
    base4 = S.v4_blocks("quick", "short", ("min", "min"))[0]
    body4 = [p for p in spaces.cross(S.thin(base4.B, 9) if tier != "thorough" else S.thin(base4.B, 3), base4.C)
             if not any(m in p[1] for m in T.OPTIONAL["4.0"])]   # no clash with the single optional
    b.append(Block("v4.single_optionals", "4.0", base4.A, body4, v4_single_optionals()))
    # v3 environmental spellings with one departure, v2 handled by the spelling blocks
    from .checks import c15
    b.append(Block("v3.env<=1_departure", "3.0", S.thin(S.v3_base_all(), 8), S.ABSENT,
                   c15.v3_env_departures(1), twin="3.1"))
    # rows that cut across all metric groups at once (spaces.interaction_row), a third of the
    # scoring checks' number (four validated documents per point)
    for fam, twin in (("2", None), ("3.0", "3.1"), ("4.0", None)):
        b.append(S.interaction_block(fam, tier, twin=twin, n=S.INTERACTION_ROWS[tier][fam] // 3))
    return b


def respellings(n):
    """(family, vector) list: covering seeds in several orders / with explicit Not Defined, i.e.
    inputs whose vectorString is not in canonical order."""
    out = []
    for fam in T.FAMILIES:
        for s, asg in observe.covering_seeds(fam, n):
            out.append((fam, s))
            order = [m for m in T.METRICS[fam] if m in asg]
            out.append((fam, T.spell(fam, asg, order)))
            out.append((fam, T.spell(fam, asg, order[::-1])))
            a = dict(asg)
            for m in T.OPTIONAL[fam]:
                a.setdefault(m, T.ND[fam])
            out.append((fam, T.spell(fam, a)))
    return out
