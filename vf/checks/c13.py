"""
C13 - text extraction is total, sound, complete for delimited vectors, duplicate-free.
E3 over token sequences: all texts that are concatenations of <=k tokens of a 34-token alphabet
(valid, near-valid and glued vectors, filler), plus single-character replacements. Oracle: a
brute-force scanner over all delimited substrings with the independent recogniser.
"""

import itertools

from .. import core, sweep
from ..ref import tables as T

CLASS = set("ABCDEFGHIJKLMNOPQRSTUVWXYZabcdefghijklmnopqrstuvwxyz:/")

V2MIN = "AV:N/AC:L/Au:N/C:P/I:P/A:P"                       # exactly 26 characters
V2OPT = "AV:L/AC:H/Au:M/C:N/I:P/A:C/E:U/RL:W/CDP:L/TD:H/AR:M"
V2PERM = "A:P/I:P/C:P/Au:N/AC:L/AV:N"                     # same vector as V2MIN, other order
V30 = "CVSS:3.0/AV:N/AC:L/PR:N/UI:N/S:U/C:H/I:H/A:H"
V31 = "CVSS:3.1/AV:N/AC:L/PR:N/UI:N/S:U/C:H/I:H/A:H"
V31OPT = "CVSS:3.1/AV:P/AC:H/PR:H/UI:R/S:C/C:L/I:N/A:L/E:P/RL:O/CR:H/MAV:N/MS:U"
V31X = "CVSS:3.1/AV:N/AC:L/PR:N/UI:N/S:U/C:H/I:H/A:H/E:X/MAV:X"  # equal to V31
V40 = "CVSS:4.0/AV:N/AC:L/AT:N/PR:N/UI:N/VC:H/VI:H/VA:H/SC:N/SI:N/SA:N"
# every optional metric written out: the longest vectors of their versions (75 and 9+108 characters)
V2FULL = "AV:N/AC:L/Au:N/C:P/I:P/A:C/E:POC/RL:OF/RC:UC/CDP:LM/TD:ND/CR:ND/IR:ND/AR:ND"
V2FULL_B = "AV:N/AC:L/Au:N/C:P/I:P/A:C/E:POC/RL:TF/RC:UR/CR:ND/IR:ND/AR:ND/TD:ND/CDP:MH"   # 75, other last field
assert len(V2FULL) == 75 and len(V2FULL_B) == 75
V31FULL = "CVSS:3.1/AV:N/AC:L/PR:N/UI:N/S:U/C:H/I:H/A:H/E:X/RL:O/RC:X/CR:H/IR:X/AR:L/MAV:N/MAC:X/MPR:L/MUI:X/MS:C/MC:X/MI:N/MA:X"
NEAR = [
    "AV:N/AC:L/Au:N/C:P/I:P",                                # 22 chars, lacks a metric
    "AV:N/AC:L/Au:N/C:P/I:P/A:X",                            # illegal value
    "CVSS:3.2/AV:N/AC:L/PR:N/UI:N/S:U/C:H/I:H/A:H",          # unsupported minor
    "CVSS:3.1/AV:N/AC:L/PR:N/UI:N/S:U/C:H/I:H/A:H/A:H",      # duplicate metric
    "CVSS:3.1/AV:N/AC:L/PR:N/UI:N/S:U/C:H/I:H",              # mandatory missing
    "AV:N/AC:L/PR:N/UI:N/S:U/C:H/I:H/A:H",                   # v3 body without prefix
    "AV:N/AC:L/Au:N/C:P/I:P/A:P/MAV:N",                      # v2 with a v3 metric
]
GLUE = [" ", ".", ",", "\n", "(", ")", "x", "/", ":", "7.5/", "CVSS:3.1/", "CVSS:3.", "3", "1", "é",
        "-", "\t", "CVSS:", "A"]
V31MOD = V31 + "/MAV:N/MS:U"     # not equal to V31: two Modified metrics are given (with the base metrics' values)
# delimiters a careless scanner treats as letters: characters that Unicode case-insensitive matching
# folds onto ASCII letters (Kelvin sign, long s, dotted capital / dotless small i), full-width and
# other look-alike letters, a lone surrogate (half an emoji, as json.loads yields it), an astral
# character, NUL
ODD = ["\u212a", "\u017f", "\u0130", "\u0131", "\uff21", "\u0410", "\ud83d", "\udc80", "\U0001f600", "\0"]
V2ND = V2MIN + "/E:ND/RL:ND/RC:ND"      # equal to V2MIN and V2PERM: only Not Defined values are added
# a v3 vector whose minor version is written with a digit that is not ASCII (full-width one, Arabic-Indic
# zero): `\\d`, isdigit() and int() take them for 1 and 0, the grammar does not
ODD_MINOR = ["CVSS:3.\uff11/AV:N/AC:L/PR:N/UI:N/S:U/C:H/I:H/A:L", "CVSS:3.\u0660/AV:N/AC:L/PR:N/UI:N/S:U/C:H/I:L/A:H"]
ALPHABET = [V2MIN, V2OPT, V2PERM, V30, V31, V31OPT, V31X, V40, V2FULL, V2FULL_B, V31FULL, V31MOD] + NEAR + GLUE + \
    ["_", "0", "²", "[", "]", "`", "^", "\\", "@", "'"] + ODD + [V2ND] + ODD_MINOR


EXT = CLASS | set("3.01")      # a valid v2/v3 vector consists of these characters only


def required(text):
    """Model keys of every valid v2/v3 vector occurring delimited in the text. Candidates are
    confined to maximal runs of characters a vector can contain, so the scan is linear in the
    number of runs (long texts) and quadratic only inside one run."""
    n = len(text)
    out = {}
    i = 0
    while i < n:
        if text[i] not in EXT:
            i += 1
            continue
        j = i
        while j < n and text[j] in EXT:
            j += 1
        # run text[i:j]
        starts = [k for k in range(i, j) if (k == 0 or text[k - 1] not in CLASS) and text[k] in CLASS]
        ends = [k for k in range(i + 1, j + 1) if (k == n or text[k] not in CLASS) and text[k - 1] in CLASS]
        if len(starts) * len(ends) <= 4000:
            for a in starts:
                for b in ends:
                    if b - a < 26 or b - a > 130:
                        continue
                    sub = text[a:b]
                    for fam in ("2", "3.0", "3.1"):
                        verdict, got = T.parse(fam, sub)
                        if verdict == "ACCEPT":
                            out[T.model_key(fam, got)] = sub
        i = j
    return out


def judge(text):
    import cvss
    from cvss.parser import parse_cvss_from_text

    try:
        got = parse_cvss_from_text(text)
    except BaseException as e:  # noqa
        return "raised %s: %s" % (type(e).__name__, e), None
    if not isinstance(got, list):
        return "did not return a list but %s" % type(got).__name__, None
    keys = []
    for o in got:
        if isinstance(o, cvss.CVSS2):
            major = 2
        elif isinstance(o, cvss.CVSS3):
            major = 3
        elif isinstance(o, cvss.CVSS4):
            major = 4
        else:
            return "returned a %s" % type(o).__name__, None
        v = getattr(o, "vector", None)
        if not isinstance(v, str) or v not in text:
            return "returned an object whose vector %r is not a substring of the text" % (v,), None
        if T.classify_class(major, v) != "ACCEPT":
            return "returned a CVSS%d object built from %r, which is not a valid v%d vector" % (major, v, major), None
        fam = T.family_of(major, v)
        keys.append(T.model_key(fam, T.parse(fam, v)[1]))
    for o in got:
        try:
            twin = type(o)(o.vector)
            if (o.scores(), o.severities(), o.clean_vector(), o.rh_vector(), o.as_json(sort=True, minimal=True)) != \
                    (twin.scores(), twin.severities(), twin.clean_vector(), twin.rh_vector(),
                     twin.as_json(sort=True, minimal=True)) or not (o == twin) or hash(o) != hash(twin):
                return "the object returned for %r behaves unlike one built directly from that substring" % (o.vector,), None
        except Exception as e:  # noqa
            return "an accessor of a returned object raised %s: %s" % (type(e).__name__, e), None
    if len(set(keys)) != len(keys):
        return "returned two equal objects", None
    if len(set(got)) != len(got):
        return "returned two objects that are equal and hash alike", None
    if len(got) <= 700:
        for a, b in itertools.combinations(got, 2):
            if a == b:
                return "returned two objects that compare equal", None
    req = required(text)
    for k, s in req.items():
        if k not in keys:
            return "the delimited valid vector %r is not returned" % (s,), None
    try:
        again = parse_cvss_from_text(text)
    except BaseException as e:  # noqa
        return "second call raised %s" % type(e).__name__, None
    if len(again) != len(got) or (any(x not in again for x in got) if len(got) <= 300 else set(again) != set(got)):
        return "a second call returned a different set of objects", None
    return None, (len(got), len(req))


def _task(t):
    depth, firsts = t
    acc = sweep.new_acc()
    for first in firsts:
        for rest in itertools.product(ALPHABET, repeat=depth - 1):
            check_text(acc, first + "".join(rest))
    return acc


def check_text(acc, text):
    acc["n"] += 1
    acc["calls"] += 2
    acc["cmp"] += 4
    why, obs = judge(text)
    if why:
        shown = repr(text) if len(text) < 400 else "%r...(%d characters)" % (text[:200], len(text))
        sweep.bad(acc, {"what": "parse_cvss_from_text(%s): %s" % (shown, why), "kind": "extract",
                        "input": text, "signature": {"kind": "extract"}})
        return
    acc["outcomes"].add(obs)
    if obs[0]:
        acc["nontrivial"] += 1
        if len(acc["samples"]) < 1 and obs[0] > 1:
            acc["samples"].append({"text": text, "returned": obs[0], "required": obs[1]})


def distinct_full_v3(n):
    """n distinct v3.1 vectors with all 22 metrics written out (117 characters each)."""
    ms = ["E", "RL", "RC", "CR", "IR", "AR", "MAV", "MAC"]
    out = []
    for combo in itertools.product(*[T.V3[m] for m in ms]):
        d = dict(zip(ms, combo))
        out.append("CVSS:3.1/AV:N/AC:L/PR:N/UI:N/S:U/C:H/I:H/A:H/" + "/".join(
            "%s:%s" % (m, d.get(m, "X")) for m in T.V3_TEMPORAL + T.V3_ENV))
        if len(out) == n:
            break
    return out


DENSE = {"quick": 300000, "thorough": 1200000}     # characters of densely packed distinct vectors
SHIFTS = (0, 39, 78)


def dense_text(size, shift):
    """Distinct 117-character vectors separated by single blanks, `shift` blanks in front: every
    cut position below `size` lies strictly inside a vector, at least 39 characters from either
    end, in one of the three shifted texts (a scanner that works in pieces loses that vector)."""
    return " " * shift + " ".join(distinct_full_v3(size // 118))


def _dense_task(t):
    size, shift = t
    acc = sweep.new_acc()
    check_text(acc, dense_text(size, shift))
    return acc


def _long_task(_):
    """Scale: long texts, many vectors, long runs of vector-like characters."""
    import random
    acc = sweep.new_acc()
    vs = [V2MIN, V2OPT, V2PERM, V30, V31, V31OPT, V31X, V2FULL, V31FULL]
    texts = [
        " ".join(vs * 60),                                   # 540 vectors, 7 distinct
        "\n".join("%d. %s," % (i, vs[i % len(vs)]) for i in range(400)),
        "A" * 200000, ":" * 50000 + "/" * 50000, ("AV:N/" * 30000),
        "x" * 30 + " " + V31 + " " + "y" * 100000 + " " + V2MIN,
        (V2MIN + "/") * 300 + " " + V2MIN,
        " ".join("AV:N/AC:L/Au:N/C:%s/I:%s/A:%s/E:%s/RL:%s" % (c, i, a, e, rl) for c in "NPC" for i in "NPC"
                 for a in "NPC" for e in ("U", "POC", "F", "H", "ND") for rl in ("OF", "TF", "W", "U")),  # 540 distinct v2
        " ".join("CVSS:3.%d/AV:%s/AC:%s/PR:%s/UI:N/S:%s/C:H/I:L/A:N" % (mi, av, ac, pr, sc) for mi in (0, 1)
                 for av in "NALP" for ac in "LH" for pr in "NLH" for sc in "UC") * 3,                     # 96 distinct v3, thrice
        V31FULL + "/" + "A" * 5000, "CVSS:3.1/" * 2000 + V31[9:],
    ]
    # many distinct vectors, then every one of them again (and a third time in reverse order)
    many = texts[7].split(" ") + distinct_full_v3(700)
    texts.append(" ".join(many + many + many[::-1]))
    texts.append(", ".join(many[:300] + many[:300]))
    for t in texts:
        check_text(acc, t)
    return acc


def _edit_task(texts):
    acc = sweep.new_acc()
    repl = "N:/ x3.1CA\n"
    for text in texts:
        for i in range(len(text)):
            for c in repl:
                if c != text[i]:
                    check_text(acc, text[:i] + c + text[i + 1:])
            check_text(acc, text[:i] + text[i + 1:])
    return acc


def run(ctx, res):
    maxk = 4 if ctx.thorough else 3
    tasks = []
    for k in range(1, maxk + 1):
        for a in ALPHABET:
            tasks.append((k, [a]))
    accs = core.task_map(_task, ctx.rot(tasks))
    edits = [V2MIN + " " + V31 + " " + V2OPT, V31 + "," + V31X + "\n" + V30, "(" + V2MIN + ")" + V2PERM,
             "x" + V31OPT + ". " + V2MIN, V2MIN + "/" + V2MIN, "7.5/" + V31 + " 7.5/" + V2MIN,
             V40 + " " + V2OPT, "CVSS:3." + V2MIN + " " + V30, V2OPT + "\n" + V2OPT + " " + V31OPT,
             "é" + V30 + "é" + V2PERM]
    accs += core.task_map(_edit_task, [[e] for e in edits])
    accs += core.task_map(_long_task, [0])
    accs += core.task_map(_dense_task, [(DENSE[ctx.tier], sh) for sh in SHIFTS])
    res.coverage["dense_texts"] = {"characters": DENSE[ctx.tier], "shifts": list(SHIFTS),
                                   "distinct_vectors_each": DENSE[ctx.tier] // 118}
    extra = sweep.new_acc()
    for text in ["", " ", "A" * 26, ":" * 30, "/" * 26, "CVSS:3.1/" * 5, V2MIN * 3, (V2MIN + " ") * 20,
                 "CVSS:3.1/" + "A" * 25, "CVSS:3.1/" + "A" * 26, V31[:-1], V2MIN[:-1], V2MIN + "x"]:
        check_text(extra, text)
    tot = sweep.merge(accs + [extra])
    cov = res.coverage
    cov["states"] = tot["n"]
    cov["transitions"] = tot["calls"]
    cov["traces_validated_against_impl"] = tot["cmp"]
    cov["evaluations"] = tot["n"]
    cov["distinct_nontrivial"] = tot["nontrivial"]
    cov["distinct_outcomes"] = len(tot["outcomes"])
    cov["outcomes_(returned,required)"] = sorted(tot["outcomes"])[:40]
    cov["alphabet_size"] = len(ALPHABET)
    cov["rule"] = ("states = texts: every concatenation of <=%d tokens of the %d-token alphabet, every "
                   "single-character replacement/deletion in ten 3-vector texts, and hand-picked "
                   "edge texts; each goes through the real parse_cvss_from_text twice; totality, "
                   "soundness, completeness (brute-force scan of all delimited substrings with the "
                   "independent recogniser), duplicate-freedom and repeatability are checked; "
                   "non-trivial = at least one object returned" % (maxk, len(ALPHABET)))
    cov["exhaustive"] = False
    cov["bound"] = "token sequences of length <= %d over a fixed alphabet; edit distance 1 from ten texts" % maxk
    cov["samples"] = ctx.rot(tot["samples"])[:6]
    for c in tot["bad"]:
        res.add_violation(c)
    cov["violating_cases_total"] = tot["nbad"]


def replay(case):
    why, obs = judge(case["input"])
    return bool(why), why or "ok: %r" % (obs,)


def replay_task(case):
    return core.replay_func_task(case)
