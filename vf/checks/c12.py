"""
C12 - Red Hat notation round-trips and rejects mismatching scores.
(1) E1 sweep: rh_vector() text and from_rh_vector(x.rh_vector()) == x on product spaces;
(2) exhaustive token x vector-part product against vf.ref.rh (trace inclusion: the observed
    outcome must be one of the outcomes the model admits).
"""

import zlib

from .. import core, observe, spaces, sweep
from ..engine import product
from ..engine.product import Block
from ..ref import rh, score2, score3, score4, tables as T


def base_tenths(fam, asg):
    if fam == "2":
        return score2.scores(asg)[0]
    if fam == "4.0":
        return score4.score(asg)
    return score3.scores(0 if fam == "3.0" else 1, asg)[0]


# ------------------------------------------------------------------ (1) round trip

def judge_roundtrip(fam, vec):
    import cvss

    cls = getattr(cvss, T.CLASSNAME[fam])
    try:
        x = cls(vec)
        text = x.rh_vector()
        want = "%.1f" % x.scores()[0] + "/" + x.clean_vector()
        if text != want:
            return "rh_vector() %r is not '<base score, one decimal>/<cleaned vector>' %r" % (text, want)
        y = cls.from_rh_vector(text)
    except Exception as e:  # noqa
        return "raised %s: %s" % (type(e).__name__, e)
    if not (y == x) or not (x == y):
        return "from_rh_vector(%r) is not equal to the original object" % (text,)
    if y.scores() != x.scores() or y.clean_vector() != x.clean_vector():
        return "from_rh_vector(%r) differs in scores/cleaned vector" % (text,)
    return None


def _full_task(fam):
    """Scale: vectors in which EVERY metric of the version is present (defined values rotated, a few
    explicit Not Defined), in three field orders, plus the covering seeds."""
    acc = sweep.new_acc()
    tab = T.METRICS[fam]
    nd = T.ND[fam]
    vecs = [s for s, _ in observe.covering_seeds(fam, 40)]
    for k in range(60):
        asg = {}
        for i, m in enumerate(tab):
            dom = [v for v in tab[m] if v != nd] if (k + i) % 9 else tab[m]
            asg[m] = dom[(k + i) % len(dom)]
        order = list(tab)
        vecs.append(T.spell(fam, asg, order))
        vecs.append(T.spell(fam, asg, order[::-1]))
        vecs.append(T.spell(fam, asg, order[1::2] + order[0::2]))
    for vec in vecs:
        acc["n"] += 1
        acc["calls"] += 6
        acc["cmp"] += 2
        why = judge_roundtrip(fam, vec)
        if why:
            sweep.bad(acc, {"what": "%s(%r): %s" % (T.CLASSNAME[fam], vec, why), "kind": "roundtrip",
                            "input": vec, "family": fam, "signature": {"kind": "roundtrip"}})
        else:
            acc["nontrivial"] += 1
    return acc


def visit(acc, blk, vec, asg, idx):
    acc["n"] += 1
    acc["calls"] += 6
    acc["cmp"] += 2
    why = judge_roundtrip(blk.family, vec)
    if why:
        sweep.bad(acc, {"what": "%s(%r): %s" % (T.CLASSNAME[blk.family], vec, why), "kind": "roundtrip",
                        "input": vec, "family": blk.family, "signature": {"kind": "roundtrip"}})
        return
    acc["nontrivial"] += 1
    if not acc["samples"]:
        acc["samples"].append({"roundtrip": vec})


# ------------------------------------------------------------------ (2) acceptance

CANON = ["%d.%d" % divmod(t, 10) for t in range(101)]
ODD_NUM = ["10", "7", "0", "7.50", "07.5", "+7.5", "7.5e0", "75e-1", ".5", "5.", "-0.0", "-7.5",
           "0.75E1", "10.00", "1e1"]
PADDED = [" 7.5", "7.5 ", "\t5.0", "10.0\n", " 0.0 "]
NOTNUM = ["", " ", "x", "7,5", "7.5.1", "0x7", "None", "7.5/", "seven", "7.5a", "--7.5", "7 .5",
          "CVSS:3.1", "AV:N", "sNaN", "NaN123", "snan", "nan7", "1.2.3e4", "e5", "."]
FUZZY = ["nan", "inf", "-inf", "NaN", "Infinity", "1e400", "7_5", "7_5.0", "７.５",
         "٧.٥", "1e-400", "-nan", "+inf", "_1", "1_0", "1_0.0"]

OUT = None


def outcome(major, text):
    """Observed outcome class of from_rh_vector, or ('FOREIGN', repr) for anything else."""
    import cvss
    from cvss import exceptions as X

    cls = {2: cvss.CVSS2, 3: cvss.CVSS3, 4: cvss.CVSS4}[major]
    n = str(major)
    try:
        if zlib.crc32(text.encode("utf-8", "surrogatepass")) % 8 == major:
            # every eighth text per class is handed over as an instance of a str subclass
            t = observe.Text(text)
            t.origin = "somewhere"
            obj = cls.from_rh_vector(t)
        else:
            obj = cls.from_rh_vector(text)
    except getattr(X, "CVSS%sRHMalformedError" % n):
        return "RHMALFORMED", None
    except getattr(X, "CVSS%sRHScoreDoesNotMatch" % n):
        return "MISMATCH", None
    except getattr(X, "CVSS%sMalformedError" % n):
        return "MALFORMED", None
    except getattr(X, "CVSS%sMandatoryError" % n):
        return "MANDATORY", None
    except BaseException as e:  # noqa
        return "FOREIGN", "%s: %s" % (type(e).__name__, e)
    return "ACCEPT", obj


def judge_accept(major, text):
    import cvss

    admitted = rh.classify(major, text, base_tenths)
    got, obj = outcome(major, text)
    if got not in admitted:
        return "from_rh_vector(%r) -> %s%s; the notation admits %s" % (
            text, got, (" (%s)" % obj) if got == "FOREIGN" else "", sorted(admitted)), got
    if got == "ACCEPT":
        cls = {2: cvss.CVSS2, 3: cvss.CVSS3, 4: cvss.CVSS4}[major]
        vec = text.split("/", 1)[1]
        twin = cls(vec)
        fam = T.family_of(major, vec)
        try:
            same = observe.observation(fam, obj) == observe.observation(fam, twin) and \
                obj.as_json(sort=True) == twin.as_json(sort=True) and hash(obj) == hash(twin)
        except Exception as e:  # noqa
            return "an accessor of the object returned by from_rh_vector(%r) raised %s" % (text, type(e).__name__), got
        if not (obj == twin) or not same:
            return "from_rh_vector(%r) returned an object that behaves unlike one built from the vector itself" % (text,), got
    return None, got


_VECS = None
_TOKS = None


def near_tokens(major, vec):
    """Score tokens derived from the vector's own (model) base score: near misses that a tolerant
    or rounding comparison would wrongly accept, and other spellings of the exact score."""
    if T.classify_class(major, vec) != "ACCEPT":
        return []
    fam = T.family_of(major, vec)
    b = base_tenths(fam, dict(T.parse(fam, vec)[1]))
    whole, tenth = divmod(b, 10)
    exact = "%d.%d" % (whole, tenth)
    out = [exact + "4", exact + "5", exact + "49", exact + "0000000001", exact + "00", exact + "e0",
           exact + "0000004", exact + "000000000000000000001",   # the latter is fuzzy (beyond double precision)
           "%d.%d96" % divmod(b - 1, 10) if b > 0 else "0.04", "%d.%d5" % divmod(b - 1, 10) if b > 0 else "0.05",
           "%d" % whole, "%d" % (whole + 1), "0" + exact, "+" + exact, exact + "e-0", "%d.%de1" % (0, whole) if tenth == 0 else exact]
    # the floating-point numbers right next to the score (1, 2 and 16 units in the last place) and
    # the score itself written with 17 significant digits
    import math
    x = b / 10.0
    lo = hi = x
    for k in range(1, 17):
        lo, hi = math.nextafter(lo, -1.0), math.nextafter(hi, 11.0)
        if k in (1, 2, 16):
            out += [repr(hi)] + ([repr(lo)] if lo >= 0 else [])
    out.append("%.17g" % x)
    return out


def _acc_task(t):
    major, lo, hi, toks_key = t
    acc = sweep.new_acc()
    toks0 = _TOKS[toks_key]
    for vec in _VECS[(major, toks_key)][lo:hi]:
        toks = toks0 + near_tokens(major, vec)
        repeat = False
        for tok in toks:
            text = tok + "/" + vec
            acc["n"] += 1
            acc["calls"] += 1
            acc["cmp"] += 1
            why, got = judge_accept(major, text)
            if why is None and repeat:
                # depth: the same string once more right after it was judged (a rejected string must
                # stay rejected, whatever was accepted just before)
                why, got = judge_accept(major, text)
                repeat = False
            if got == "ACCEPT":
                repeat = True
            if why:
                sweep.bad(acc, {"what": "CVSS%d %s" % (major, why), "kind": "rh_accept",
                                "input": text, "major": major, "signature": {"kind": "rh_accept"}})
                continue
            acc["outcomes"].add((major, got))
            if got != "MISMATCH":
                acc["nontrivial"] += 1
            if not acc["samples"] and got == "ACCEPT":
                acc["samples"].append({"from_rh_vector": text, "outcome": got})
    return acc


def _odd_prefixes():
    """Valid bodies behind the prefix variants of C04 (digit look-alikes and the like) and valid
    vectors wrapped the way they are quoted in reports: every one an invalid vector part."""
    from . import c04
    b3 = "AV:N/AC:L/PR:N/UI:N/S:U/C:H/I:H/A:H"
    b4 = "AV:N/AC:L/AT:N/PR:N/UI:N/VC:H/VI:H/VA:H/SC:N/SI:N/SA:N"
    out = {2: [], 3: [], 4: []}
    for p in c04.PREFIXES:
        if p not in ("CVSS:3.0/", "CVSS:3.1/"):
            out[3].append(p + b3)
        if p != "CVSS:4.0/":
            out[4].append(p + b4)
    # ... and with something at ONE end only (a line read from a file keeps its line break; `$`, `.`
    # and strip() each treat such characters in their own way), and with a line break inside
    one_sided = [("", "\n"), ("", "\r\n"), ("", "\r"), ("\n", ""), ("", " "), (" ", ""), ("", "\t"), ("", "\x0b"),
                 ("", "\x0c"), ("", "\x1c"), ("", "\x85"), ("", "\u2028"), ("", "\u3000"), ("", "\0")]
    for l, r in c04.WRAPS[:10] + one_sided:
        out[2].append(l + "AV:N/AC:L/Au:N/C:P/I:P/A:P" + r)
        out[3].append(l + "CVSS:3.1/" + b3 + r)
        out[4].append(l + "CVSS:4.0/" + b4 + r)
    for br in ("\n", "\r\n"):
        out[2].append("AV:N/AC:L/Au:N" + br + "/C:P/I:P/A:P")
        out[3].append("CVSS:3.1/AV:N/AC:L/PR:N/UI:N/" + br + "S:U/C:H/I:H/A:H")
        out[4].append("CVSS:4.0/AV:N/AC:L/AT:N/PR:N/UI:N/VC:H/VI:H" + br + "/VA:H/SC:N/SI:N/SA:N")
    return out


INVALID = {
    2: ["", "AV:N", "AV:N/AC:L/Au:N/C:P/I:P", "AV:N/AC:L/Au:N/C:P/I:P/A:P/", "AV:N/AC:L/Au:N/C:P/I:P/A:X",
        "AV:N/AC:L/Au:N/C:P/I:P/A:P/A:P", "CVSS:3.1/AV:N/AC:L/PR:N/UI:N/S:U/C:H/I:H/A:H",
        "AV:N//AC:L/Au:N/C:P/I:P/A:P", "7.5/AV:N/AC:L/Au:N/C:P/I:P/A:P", "av:n/ac:l/au:n/c:p/i:p/a:p"],
    3: ["", "CVSS:3.1/", "CVSS:3.1/AV:N", "CVSS:3.2/AV:N/AC:L/PR:N/UI:N/S:U/C:H/I:H/A:H",
        "AV:N/AC:L/PR:N/UI:N/S:U/C:H/I:H/A:H", "CVSS:3.1/AV:N/AC:L/PR:N/UI:N/S:U/C:H/I:H/A:H/",
        "CVSS:3.0/AV:N/AC:L/PR:N/UI:N/S:U/C:H/I:H/A:Q", "CVSS:3.1/AV:N/AC:L/PR:N/UI:N/S:U/C:H/I:H",
        "CVSS:3.1/AV:N/AC:L/PR:N/UI:N/S:U/C:H/I:H/A:H/A:H", "9.8/CVSS:3.1/AV:N/AC:L/PR:N/UI:N/S:U/C:H/I:H/A:H",
        "CVSS:4.0/AV:N/AC:L/AT:N/PR:N/UI:N/VC:H/VI:H/VA:H/SC:N/SI:N/SA:N"],
    4: ["", "CVSS:4.0/", "CVSS:4.0/AV:N", "CVSS:4.1/AV:N/AC:L/AT:N/PR:N/UI:N/VC:H/VI:H/VA:H/SC:N/SI:N/SA:N",
        "CVSS:4.0/AV:N/AC:L/AT:N/PR:N/UI:N/VC:H/VI:H/VA:H/SC:N/SI:N/SA:N/",
        "CVSS:4.0/AV:N/AC:L/AT:N/PR:N/UI:N/VC:H/VI:H/VA:H/SC:N/SI:N/SA:S",
        "CVSS:4.0/AV:N/AC:L/AT:N/PR:N/UI:N/VC:H/VI:H/VA:H/SC:N/SI:N",
        "CVSS:4.0/AV:N/AC:L/AT:N/PR:N/UI:N/VC:H/VI:H/VA:H/SC:N/SI:N/SA:N/U:red",
        "CVSS:3.1/AV:N/AC:L/PR:N/UI:N/S:U/C:H/I:H/A:H",
        "9.3/CVSS:4.0/AV:N/AC:L/AT:N/PR:N/UI:N/VC:H/VI:H/VA:H/SC:N/SI:N/SA:N"],
}


def score_cover(fam, vecs_asg, per_score):
    """Pick up to per_score vectors for every distinct model base score."""
    seen = {}
    out = []
    for vec, asg in vecs_asg:
        b = base_tenths(fam, asg)
        if seen.get(b, 0) < per_score:
            seen[b] = seen.get(b, 0) + 1
            out.append(vec)
    return out


def blocks(tier):
    return _blocks(tier) + [spaces.interaction_block(fam, tier, twin=twin, n=spaces.INTERACTION_ROWS[tier][fam] // 3)
                            for fam, twin in (("2", None), ("3.0", "3.1"), ("4.0", None))]


def _blocks(tier):
    if tier == "thorough":
        return spaces.v2_blocks("quick") + spaces.v3_blocks("quick") + \
            spaces.v4_blocks("quick", "short") + spaces.v4_blocks("quick", "override", ("mid", "mid"))
    return [
        Block("v2.base_x_temporal", "2", spaces.v2_base_all(), spaces.ABSENT + spaces.v2_temporal_effective()),
        Block("v2.env_free", "2", spaces.v2_base_skeleton(), spaces.v2_temporal_skeleton()[:3],
              spaces.ABSENT + spaces.v2_env_effective()),
        Block("v3.base_x_temporal", "3.0", spaces.v3_base_all(),
              spaces.v3_temporal_skeleton(6) + spaces.thin(spaces.v3_temporal_spellings(), 5), twin="3.1"),
        Block("v3.override", "3.0", spaces.v3_modified_over_complementary_base(),
              spaces.v3_temporal_skeleton(2), spaces.thin(spaces.v3_req_all(), 3), twin="3.1"),
    ] + spaces.v4_blocks("quick", "short", ("min", "mid")) + \
        spaces.v4_blocks("quick", "override", ("min", "min"))[1:]


def build_sets(thorough):
    global _VECS, _TOKS
    v2all = [(f, d) for f, d in spaces.v2_base_all()]
    v3all = [(T.PREFIX[fam] + f, d, fam) for fam in ("3.0", "3.1") for f, d in spaces.v3_base_all()]
    v4parts = spaces.v4_blocks("quick", "short", ("mid", "mid"))
    v4all = []
    for b in v4parts:
        for fa, da in spaces.thin(b.A, 2 if not thorough else 1):
            for fb, db in spaces.thin(b.B, 5 if not thorough else 1):
                for fc, dc in spaces.thin(b.C, 3):
                    d = dict(da)
                    d.update(db)
                    d.update(dc)
                    v4all.append((T.PREFIX["4.0"] + "/".join(x for x in (fa, fb, fc) if x), d))
    extra2 = ["AV:N/AC:L/Au:N/C:P/I:P/A:P/E:U/RL:OF/RC:UC", "AV:L/AC:H/Au:M/C:N/I:N/A:N/CDP:H/TD:H/CR:H",
              "AV:N/AC:L/Au:N/C:C/I:C/A:C/E:POC/RL:ND/TD:L/AR:L"]
    extra3 = ["CVSS:3.1/AV:N/AC:L/PR:N/UI:N/S:U/C:H/I:H/A:H/E:U/RL:O/RC:U",
              "CVSS:3.0/AV:P/AC:H/PR:H/UI:R/S:U/C:N/I:N/A:L/CR:H/IR:H/AR:H/MAV:N/MAC:L/MPR:N/MUI:N/MS:C/MC:H/MI:H/MA:H",
              "CVSS:3.1/S:C/C:H/I:H/A:N/AV:P/AC:H/PR:H/UI:R/E:H/RL:O/RC:R/CR:H/IR:X/AR:X/MAC:H/MPR:X"]
    extra4 = ["CVSS:4.0/AV:N/AC:L/AT:N/PR:N/UI:N/VC:H/VI:H/VA:H/SC:H/SI:H/SA:H/E:U/CR:L/IR:L/AR:L",
              "CVSS:4.0/AV:P/AC:H/AT:P/PR:H/UI:A/VC:N/VI:N/VA:N/SC:N/SI:N/SA:N/MSI:S/U:Red/S:P",
              "CVSS:4.0/SA:L/SI:L/SC:L/VA:L/VI:L/VC:L/UI:N/PR:N/AT:N/AC:L/AV:N"]
    odd = ODD_NUM + PADDED + NOTNUM + FUZZY
    _TOKS = {"canon": CANON, "all": CANON + odd}
    v4cover = score_cover("4.0", v4all, 12 if thorough else 4)
    _VECS = {
        (2, "canon"): [f for f, d in v2all],
        (3, "canon"): [v for v, d, fam in v3all] if thorough else
        [v for v, d, fam in v3all if fam == "3.1"] + [v for v, d, fam in v3all if fam == "3.0"][::4],
        (4, "canon"): v4cover if not thorough else [v for v, d in v4all],
        (2, "all"): score_cover("2", v2all, 1) + extra2 + INVALID[2] + _odd_prefixes()[2],
        (3, "all"): score_cover("3.0", [(v, d) for v, d, fam in v3all if fam == "3.0"], 1) +
        score_cover("3.1", [(v, d) for v, d, fam in v3all if fam == "3.1"], 1) + extra3 + INVALID[3] + _odd_prefixes()[3],
        (4, "all"): score_cover("4.0", v4all, 1) + extra4 + INVALID[4] + _odd_prefixes()[4],
    }


def run(ctx, res):
    global _VECS, _TOKS
    # (1) round trip
    blocks_ = blocks(ctx.tier)
    accs_full = core.task_map(_full_task, list(T.FAMILIES))
    tot = sweep.merge(product.run(ctx, blocks_, visit, sweep.new_acc) + accs_full)
    sweep.fill(res, ctx, tot, blocks_,
               "(1) every point of the listed blocks: rh_vector() text == '%.1f'%base + '/' + "
               "clean_vector(), from_rh_vector(rh_vector()) == x with the same scores.",
               exhaustive=True)
    # (2) acceptance
    build_sets(ctx.thorough)
    tasks = []
    for (major, key), vecs in sorted(_VECS.items()):
        for lo, hi in core.split_range(len(vecs), 32):
            tasks.append((major, lo, hi, key))
    accs = core.task_map(_acc_task, tasks)
    tot2 = sweep.merge(accs)
    # strings without any '/'
    noslash = sweep.new_acc()
    for major in (2, 3, 4):
        for text in _TOKS["all"] + ["7.5AV:N", "CVSS:3.1", "7.5|AV:N", "∕"]:
            if "/" in text:
                continue
            noslash["n"] += 1
            noslash["cmp"] += 1
            noslash["calls"] += 1
            why, got = judge_accept(major, text)
            if why:
                sweep.bad(noslash, {"what": "CVSS%d %s" % (major, why), "kind": "rh_accept",
                                    "input": text, "major": major, "signature": {"kind": "rh_accept"}})
    tot2 = sweep.merge(accs + [noslash])
    cov = res.coverage
    cov["states"] += tot2["n"]
    cov["transitions"] += tot2["calls"]
    cov["traces_validated_against_impl"] += tot2["cmp"]
    cov["evaluations"] += tot2["n"]
    cov["distinct_nontrivial"] += tot2["nontrivial"]
    cov["acceptance_cases"] = tot2["n"]
    cov["acceptance_outcomes_observed"] = sorted("%d:%s" % o for o in tot2["outcomes"])
    cov["acceptance_vector_parts"] = dict(("%d.%s" % k, len(v)) for k, v in _VECS.items())
    cov["tokens"] = {"canonical": len(CANON), "odd_numeric": len(ODD_NUM), "padded": len(PADDED),
                     "not_numeric": len(NOTNUM), "fuzzy": len(FUZZY)}
    cov["rule"] += (" (2) every (score token, vector part) pair of the listed sets goes through "
                    "from_rh_vector(); the observed outcome class must be admitted by the RH model "
                    "(accept / RH-malformed / score-mismatch / vector errors); non-trivial = "
                    "outcome other than plain score-mismatch.")
    cov["samples"] += ctx.rot(tot2["samples"])[:4]
    for c in tot2["bad"]:
        res.add_violation(c)
    cov["violating_cases_total"] = cov.get("violating_cases_total", 0) + tot2["nbad"]
    cov["bound"] = ("all v2/v3 base vectors x all 101 canonical scores; a v4 set covering every "
                    "reachable score x 101; odd/padded/non-numeric/fuzzy tokens x score-covering and "
                    "invalid vector parts")


def replay_task(case):
    if case["kind"] != "roundtrip":
        if not isinstance(case.get("task"), dict):
            return replay(case)
        return core.replay_func_task(case, lambda c: build_sets((c.get("tier") or "quick") == "thorough"))
    return product.replay_task(blocks(case.get("tier") or "quick"), visit, sweep.new_acc, case)


def replay(case):
    if case["kind"] == "roundtrip":
        why = judge_roundtrip(case["family"], case["input"])
        return bool(why), why or "round trip ok"
    why, got = judge_accept(case["major"], case["input"])
    return bool(why), why or "outcome %s admitted" % got
