"""
C10 - JSON output validates against the official FIRST JSON schema.
E1 sweep x {sort} x {minimal}; validity is *factorised* (keyword whitelist asserted on the pinned
schemas): each distinct (key, value) factor - and for v4 each coupled (score, severity) pair - is
validated once by the real jsonschema validator inside a hand-made valid baseline instance;
vectorString is matched per instance with the schema's own regex; `required` per instance. The
factorisation itself is cross-checked by validating a set of complete instances with the real
validator and requiring the same verdict.
"""

import json

from .. import core, jsonspace, jsonval, observe, sweep
from ..engine import product
from ..ref import tables as T

SCHEMA_OF = {"2": "2.0", "3.0": "3.0", "3.1": "3.1", "4.0": "4.0"}
OPTS = [(False, False), (True, False), (False, True), (True, True)]
_SCHEMAS = {}


def schema(fam):
    v = SCHEMA_OF[fam]
    if v not in _SCHEMAS:
        _SCHEMAS[v] = jsonval.Schema(v)
    return _SCHEMAS[v]


def first_order(fam, vec):
    """For v4: is the input accepted and are its fields in FIRST order?"""
    verdict, got = T.parse(fam, vec)
    if verdict != "ACCEPT":
        return None
    return list(got) == [m for m in T.METRICS[fam] if m in got]


def instance_checks(fam, vec, d):
    """Per-instance part: JSON round trip, required keys, vectorString pattern.
    Returns (list of problems [(signature, text)], round-tripped dict or None)."""
    sc = schema(fam)
    probs = []
    try:
        text = json.dumps(d)
        back = json.loads(text)
    except Exception as e:  # noqa
        return [({"kind": "json", "family": fam}, "as_json() result is not JSON-serialisable: %s" % e)], None
    if not isinstance(back, dict):
        return [({"kind": "json", "family": fam}, "as_json() is not a JSON object")], None
    for k in sc.required:
        if k not in back:
            probs.append(({"kind": "required", "family": fam, "key": k}, "required key %r missing" % k))
    vs = back.get("vectorString")
    if not isinstance(vs, str) or not sc.pattern.search(vs):
        sig = {"kind": "vectorString", "family": fam}
        if fam == "4.0" and isinstance(vs, str) and first_order(fam, vs) is False:
            # accepted input echoed verbatim whose fields are not in FIRST order
            sig["accepted_input_not_in_first_order"] = True
        probs.append((sig, "vectorString %r does not match the schema's pattern" % (vs,)))
    return probs, back


def fkey(v):
    try:
        hash(v)
        return (type(v).__name__, v)
    except TypeError:
        return ("json", json.dumps(v, sort_keys=True))


def visit(acc, blk, vec, asg, idx):
    fam = blk.family
    if fam == "4.0":
        vec = T.spell(fam, asg)          # FIRST order, so the echoed vectorString can match
    visit_vec(acc, fam, vec)


def visit_vec(acc, fam, vec):
    acc["n"] += 1
    sc = schema(fam)
    try:
        obj = observe.construct(fam, vec)
        ds = [obj.as_json(sort=s, minimal=m) for s, m in OPTS]
    except Exception as e:  # noqa
        if T.classify(fam, vec) != "ACCEPT":
            raise core.HarnessError("C10 generated an invalid vector %r" % (vec,))
        sweep.bad(acc, {"what": "%s(%r).as_json raised %s: %s" % (T.CLASSNAME[fam], vec, type(e).__name__, e),
                        "kind": "raise", "family": fam, "input": vec, "opts": [False, False],
                        "signature": {"kind": "raise"}})
        return
    acc["calls"] += 5
    F = acc["extra"].setdefault("factors", {})
    K = acc["extra"].setdefault("keysets", {})
    for (s, m), d in zip(OPTS, ds):
        probs, back = instance_checks(fam, vec, d)
        acc["cmp"] += 1
        for sig, text in probs:
            sweep.bad(acc, {"what": "%s(%r).as_json(sort=%s, minimal=%s): %s" % (
                T.CLASSNAME[fam], vec, s, m, text), "kind": sig["kind"], "family": fam, "input": vec,
                "opts": [s, m], "signature": sig})
        if back is None:
            continue
        ks = (fam, tuple(sorted(back)))
        if ks not in K:
            K[ks] = (vec, s, m)
        for k, v in back.items():
            if k in sc.props and k != "vectorString" and k not in sc.coupled:
                key = (sc.version, k, fkey(v))
                if key not in F:
                    F[key] = (vec, s, m)
        for c in sc.couples:
            key = (sc.version, "+".join(c), tuple(fkey(back[k]) if k in back else ("absent", None) for k in c))
            if key not in F:
                F[key] = (vec, s, m)
    if len(acc["samples"]) < 1:
        acc["samples"].append({"vector": vec, "as_json(sort=True,minimal=True)": json.loads(json.dumps(ds[3]))})
    acc["nontrivial"] += 1


def _resp_task(chunk):
    acc = sweep.new_acc()
    for fam, vec in chunk:
        visit_vec(acc, fam, vec)
    return acc


def _lenient_task(chunk):
    """Strings one character away from a valid vector: whatever the library *accepts* among them is
    an accepted vector and its JSON must validate too (whether it should have been accepted is C04's
    business)."""
    acc = sweep.new_acc()
    for fam, s in chunk:
        try:
            observe.cls_of(fam)(s)
        except Exception:  # noqa
            continue
        acc["extra"]["accepted"] = acc["extra"].get("accepted", 0) + 1
        visit_vec_unchecked(acc, fam, s)
    return acc


def visit_vec_unchecked(acc, fam, vec):
    """visit_vec for strings the model may reject: no harness error on a raise."""
    if T.classify(fam, vec) == "ACCEPT":
        return visit_vec(acc, fam, vec)
    try:
        obj = observe.cls_of(fam)(vec)
        ds = [obj.as_json(sort=s, minimal=m) for s, m in OPTS]
    except Exception:  # noqa
        return
    acc["n"] += 1
    for (s, m), d in zip(OPTS, ds):
        probs, back = instance_checks(fam, vec, d)
        for sig, text in probs:
            sweep.bad(acc, {"what": "%s(%r) is accepted and .as_json(sort=%s, minimal=%s): %s" % (
                T.CLASSNAME[fam], vec, s, m, text), "kind": sig["kind"], "family": fam, "input": vec,
                "opts": [s, m], "signature": sig})


def factor_text(name, fk):
    if "+" in name:
        return json.dumps([jsonval.ABSENT if t == "absent" else (json.loads(v) if t == "json" else v)
                           for t, v in fk])
    t, v = fk
    return v if t == "json" else json.dumps(v)


def run(ctx, res):
    for fam in T.FAMILIES:
        schema(fam)
    blocks = jsonspace.blocks(ctx.tier)
    accs = product.run(ctx, blocks, visit, sweep.new_acc)
    resp = jsonspace.respellings(40 if ctx.thorough else 24)
    accs += core.task_map(_resp_task, [resp[i::16] for i in range(16)])
    from . import c04
    near = []
    for seed in c04.seeds(1):
        major = {"": 2, "CVSS:3.0/": 3, "CVSS:3.1/": 3, "CVSS:4.0/": 4}[c04.split_prefix(seed)[0]]
        for t in c04.char_edits(seed):
            near.append((T.family_of(major, t), t))      # the schema is chosen by the string's own prefix
    accs_l = core.task_map(_lenient_task, [near[i::32] for i in range(32)])
    res.coverage["strings_one_edit_from_valid_offered"] = len(near)
    res.coverage["of_which_accepted_by_the_library"] = sum(a["extra"].get("accepted", 0) for a in accs_l)
    accs += accs_l
    tot = sweep.merge(accs)
    factors, keysets, factor_task = {}, {}, {}
    for a in accs:
        t = a.get("_task")
        for k, v in a["extra"].get("factors", {}).items():
            if k not in factors:
                factors[k] = v
                factor_task[k] = [blocks[t[0]].name, t[1], t[2]] if t else None
        for k, v in a["extra"].get("keysets", {}).items():
            keysets.setdefault(k, v)
    ctx.log("%d instances x4, %d distinct factors, %d distinct key sets" % (tot["n"], len(factors), len(keysets)))
    V = jsonval.Validator()
    bad_factors = {}
    try:
        # baselines must be valid
        for v in ("2.0", "3.0", "3.1", "4.0"):
            if V.errors(v, json.dumps(jsonval.BASELINE[v])):
                raise core.HarnessError("baseline instance for schema %s is not valid" % v)
        for (ver, name, fk) in sorted(factors, key=repr):
            text = factor_text(name, fk)
            inst = jsonval.factor_instance(_SCHEMAS[ver], name, text)
            errs = V.errors(ver, json.dumps(inst))
            if errs:
                bad_factors[(ver, name, fk)] = errs
        # cross-check of the factorisation: complete instances through the real validator
        cross = 0
        fams = dict((SCHEMA_OF[f], f) for f in T.FAMILIES)
        pick = sorted(keysets.items(), key=repr)
        extra = [((f, None), (vec, s, m)) for (f, vec) in resp[:: max(1, len(resp) // 120)]
                 for s, m in OPTS[::3]]
        for (ks, (vec, s, m)) in pick + extra:
            fam = ks[0]
            sc = schema(fam)
            d = observe.cls_of(fam)(vec).as_json(sort=s, minimal=m)
            text = json.dumps(d)
            real = V.errors(sc.version, text)
            back = json.loads(text)
            probs, _ = instance_checks(fam, vec, d)
            pred_bad = bool(probs)
            for k, v in back.items():
                if k in sc.props and k != "vectorString" and k not in sc.coupled and \
                        (sc.version, k, fkey(v)) in bad_factors:
                    pred_bad = True
            for c in sc.couples:
                key = (sc.version, "+".join(c), tuple(fkey(back[k]) if k in back else ("absent", None) for k in c))
                if key in bad_factors:
                    pred_bad = True
            cross += 1
            if pred_bad != bool(real):
                raise core.HarnessError("factorised verdict (%s) differs from the real validator (%s) "
                                        "for %r sort=%s minimal=%s: %r" % (pred_bad, bool(real), vec, s, m, real[:3]))
        # for a rejected (score, severity) pair: is it merely the letter case of the right rating?
        case_only = set()
        for (ver, name, fk) in bad_factors:
            if name.endswith("Severity") and "+" in name:
                val = json.loads(factor_text(name, fk))
                if isinstance(val[1], str) and val[1] != val[1].upper():
                    up = jsonval.factor_instance(_SCHEMAS[ver], name, json.dumps([val[0], val[1].upper()]))
                    if not V.errors(ver, json.dumps(up)):
                        case_only.add((ver, name, fk))
        nval = V.n
    finally:
        V.close()
    for (ver, name, fk), errs in sorted(bad_factors.items(), key=repr):
        vec, s, m = factors[(ver, name, fk)]
        text = factor_text(name, fk)
        sig = {"kind": "factor", "schema": ver, "factor": name}
        if (ver, name, fk) in case_only:
            sig["valid_when_uppercased"] = True
        fam = [f for f in T.FAMILIES if SCHEMA_OF[f] == ver][0]
        res.add_violation({
            "what": "schema %s rejects %s = %s (%s), e.g. %s(%r).as_json(sort=%s, minimal=%s)" % (
                ver, name, text, errs[0][2], T.CLASSNAME[fam], vec, s, m),
            "kind": "factor", "family": fam, "input": vec, "opts": [s, m], "factor": name,
            "factor_value": text, "schema": ver, "task": factor_task.get((ver, name, fk)), "tier": ctx.tier,
            "signature": sig})
    sweep.fill(res, ctx, tot, blocks,
               "states = accepted vectors; each is serialised with all four (sort, minimal) pairs, "
               "round-tripped through JSON text and decomposed into factors; every distinct factor "
               "is validated by the real jsonschema validator (Decimal arithmetic) inside a valid "
               "baseline instance; vectorString/required are checked per instance; non-trivial = "
               "instances that serialised", exhaustive=True)
    cov = res.coverage
    cov["states"] = tot["n"]
    cov["transitions"] = tot["n"] * 4
    cov["traces_validated_against_impl"] = tot["cmp"]
    cov["distinct_factors_validated"] = len(factors)
    cov["distinct_key_sets"] = len(keysets)
    cov["complete_instances_cross_checked_with_real_validator"] = cross
    cov["real_validator_calls"] = nval
    cov["failing_factors"] = sorted("%s:%s=%s" % (k[0], k[1], factor_text(k[1], k[2])) for k in bad_factors)
    cov["respelled_inputs"] = len(resp)
    cov["bound"] = "JSON spaces of vf/jsonspace.py (%s tier) x 4 option pairs" % ctx.tier
    res.assumptions += ["schema validity factorises over top-level properties (keyword whitelist "
                        "asserted at start-up, cross-checked on complete instances)",
                        "jsonschema 4.26 in the tooling interpreter is the validator"]


def replay(case):
    fam, vec = case["family"], case["input"]
    s, m = case["opts"]
    try:
        d = observe.cls_of(fam)(vec).as_json(sort=s, minimal=m)
        text = json.dumps(d)
    except Exception as e:  # noqa
        return True, "raised %s: %s" % (type(e).__name__, e)
    V = jsonval.Validator()
    try:
        errs = V.errors(SCHEMA_OF[fam], text)
    finally:
        V.close()
    if case["kind"] == "factor":
        name = case["factor"]
        errs = [e for e in errs if e[0] in name.split("+") or (e[0] == "" and "+" in name)]
    elif case["kind"] == "vectorString":
        errs = [e for e in errs if e[0] == "vectorString"]
    elif case["kind"] == "required":
        errs = [e for e in errs if e[1] == "required"]
    return bool(errs), "validator errors: %r" % (errs[:3],)


def replay_task(case):
    blocks = jsonspace.blocks(case.get("tier") or "quick")
    if case.get("kind") != "factor":
        return product.replay_task(blocks, visit, sweep.new_acc, case)
    # a factor value that only arises after the inputs preceding it in its task
    for fam in T.FAMILIES:
        schema(fam)
    name, lo, hi = case["task"]
    acc = product.run_single_task(blocks, visit, sweep.new_acc, name, lo, hi, case.get("tier"))
    for (ver, fname, fk), (vec, s, m) in acc["extra"].get("factors", {}).items():
        if ver == case["schema"] and fname == case["factor"] and factor_text(fname, fk) == case["factor_value"]:
            V = jsonval.Validator()
            try:
                inst = jsonval.factor_instance(_SCHEMAS[ver], fname, case["factor_value"])
                errs = V.errors(ver, json.dumps(inst))
            finally:
                V.close()
            return bool(errs), "task %s produces %s = %s (first at %r): %r" % (case["task"], fname, case["factor_value"], vec, errs[:2])
    return False, "the task no longer produces %s = %s" % (case["factor"], case["factor_value"])
