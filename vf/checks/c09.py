"""
C09 - scores are well-formed floats and severity ratings follow the official scale.
E1 product sweep; per object every reported score / rating / JSON severity / RH score text is
checked against format predicates and vf.ref.severity.
"""

import math
import re

from .. import core, observe, spaces, sweep
from ..engine import product
from ..ref import score2, severity, tables as T

REPR = re.compile(r"^(10\.0|\d\.\d)$")
SEVKEYS = ("baseSeverity", "temporalSeverity", "environmentalSeverity")


def judge(fam, vec, asg):
    """Returns (why-or-None, observation)."""
    import cvss

    cls = getattr(cvss, T.CLASSNAME[fam])
    try:
        first = cls(vec).scores()
        obj = observe.construct(fam, vec)   # the checks run on a second object built from the same string
        sc = obj.scores()
        if sc != first:
            return "a second object built from the same string scores %r, the first %r" % (sc, first), None
        sv = obj.severities()
        js = obj.as_json()
        js_min = obj.as_json(minimal=True)
        rh = obj.rh_vector()
    except Exception as e:  # noqa
        return "accessor raised %s: %s" % (type(e).__name__, e), None
    nslots = 1 if fam == "4.0" else 3
    if not (isinstance(sc, tuple) and len(sc) == nslots):
        return "scores() is not a %d-tuple: %r" % (nslots, sc), None
    if not (isinstance(sv, tuple) and len(sv) == nslots):
        return "severities() is not a %d-tuple: %r" % (nslots, sv), None
    undefined = (False, False, False)
    if fam == "2":
        _, t, e = score2.scores(asg)
        undefined = (False, t is None, e is None)
    tenths = []
    for i, s in enumerate(sc):
        if s is None:
            if not undefined[i]:
                return "score slot %d is None for a defined score" % i, (sc, sv)
            tenths.append(None)
            continue
        if undefined[i]:
            return "score slot %d is %r although the v2 group is undefined" % (i, s), (sc, sv)
        if type(s) is not float:
            return "score slot %d is %s, not float: %r" % (i, type(s).__name__, s), (sc, sv)
        if not (0.0 <= s <= 10.0):
            return "score %r outside [0.0, 10.0]" % (s,), (sc, sv)
        if math.copysign(1.0, s) < 0:
            return "score is negative zero", (sc, sv)
        if not REPR.match(repr(s)):
            return "score %r does not print with exactly one decimal digit" % (s,), (sc, sv)
        t = int(round(s * 10))
        if abs(s * 10 - t) > 1e-9 or s != t / 10.0:
            return "score %r is not a one-decimal value" % (s,), (sc, sv)
        tenths.append(t)
    for i, t in enumerate(tenths):
        want = severity.scale(fam, t)
        if sv[i] != want:
            return "severities()[%d] is %r for score %r; official scale says %r" % (
                i, sv[i], sc[i], want), (sc, sv)
    if fam == "4.0":
        if getattr(obj, "severity", None) != sv[0]:
            return "severity attribute %r differs from severities() %r" % (
                getattr(obj, "severity", None), sv), (sc, sv)
    if fam != "2":
        for i, k in enumerate(SEVKEYS[:nslots]):
            if k in js:
                if not isinstance(js[k], str) or js[k].upper() != sv[i].upper():
                    return "JSON %s %r disagrees with severities()[%d] %r" % (k, js[k], i, sv[i]), (sc, sv)
            elif i == 0:
                return "JSON has no baseSeverity", (sc, sv)
    else:
        for k in SEVKEYS:
            if k in js and (not isinstance(js[k], str) or
                            js[k].upper() != sv[SEVKEYS.index(k)].upper()):
                return "JSON %s %r disagrees with severities()" % (k, js[k]), (sc, sv)
    for i, k in enumerate(SEVKEYS[:nslots]):
        if k in js_min and fam != "2" and (not isinstance(js_min[k], str) or js_min[k].upper() != sv[i].upper()):
            return "JSON(minimal) %s %r disagrees with severities()[%d] %r" % (k, js_min[k], i, sv[i]), (sc, sv)
    head = rh.split("/", 1)[0] if isinstance(rh, str) else None
    if head != repr(sc[0]):
        return "rh_vector() score text %r is not the base score %r" % (head, sc[0]), (sc, sv)
    return None, (sc, sv)


def visit(acc, blk, vec, asg, idx):
    acc["n"] += 1
    acc["calls"] += 5
    why, obs = judge(blk.family, vec, asg)
    acc["cmp"] += 4
    if why:
        sweep.bad(acc, {"what": "%s(%r): %s" % (T.CLASSNAME[blk.family], vec, why), "kind": "format",
                        "input": vec, "family": blk.family, "signature": {"kind": "format"}})
        return
    sc, sv = obs
    key = (blk.family,) + sc
    if key not in acc["outcomes"]:
        acc["outcomes"].add(key)
    seen = acc["extra"].setdefault("slot_scores", set())
    for i, s in enumerate(sc):
        seen.add((T.MAJOR[blk.family], i, s))
    if not acc["samples"]:
        acc["samples"].append({"vector": vec, "scores": sc, "severities": sv})


EDGES = (0.0, 0.1, 3.9, 4.0, 6.9, 7.0, 8.9, 9.0, 10.0)


def blocks(tier):
    return _blocks(tier) + [spaces.interaction_block("2", tier), spaces.interaction_block("3.0", tier, twin="3.1"),
                            spaces.interaction_block("4.0", tier)]


def _blocks(tier):
    if tier == "thorough":
        return spaces.v2_blocks("thorough") + spaces.v3_blocks("thorough") + \
            spaces.v4_blocks("thorough", "short")
    out = spaces.v2_blocks("quick")
    out.append(product.Block("v3.base_x_temporal_spellings", "3.0", spaces.v3_base_all(),
                             spaces.v3_temporal_spellings(), twin="3.1"))
    out.append(product.Block("v3.inherit", "3.0", spaces.v3_base_all(), spaces.v3_temporal_skeleton(4),
                             spaces.v3_req_all(), twin="3.1"))
    return out + spaces.v4_blocks("quick", "short", ("mid", "mid"))


def run(ctx, res):
    blocks_ = blocks(ctx.tier)
    accs = product.run(ctx, blocks_, visit, sweep.new_acc)
    tot = sweep.merge(accs)
    slot = set()
    for a in accs:
        slot |= a["extra"].get("slot_scores", set())
    tot["nontrivial"] = len(slot)
    sweep.fill(res, ctx, tot, blocks_,
               "every point of the listed product blocks is constructed with the real class; "
               "scores(), severities(), CVSS4.severity, as_json() severities and the rh_vector() "
               "score text are checked against format predicates and the official scales; "
               "distinct_nontrivial = number of distinct (version, slot, score) values reached",
               exhaustive=True)
    reach = {}
    for major, nslots in ((2, 3), (3, 3), (4, 1)):
        for i in range(nslots):
            vals = sorted(s for (mj, sl, s) in slot if mj == major and sl == i and s is not None)
            reach["v%d.slot%d" % (major, i)] = {
                "distinct_scores": len(vals),
                "band_edges_reached": [e for e in EDGES if e in vals],
                "band_edges_not_reached": [e for e in EDGES if e not in vals],
            }
    res.coverage["score_reach"] = reach
    res.coverage["bound"] = "full product spaces of C01-C03" if ctx.thorough else \
        "quick (<=1 free group) spaces of C01-C03"


def replay(case):
    vec, fam = case["input"], case["family"]
    verdict, got = T.parse(fam, vec)
    if verdict != "ACCEPT":
        raise core.HarnessError("replay input is not a valid vector")
    why, obs = judge(fam, vec, dict(got))
    return bool(why), why or "well-formed: %r" % (obs,)


def replay_task(case):
    return product.replay_task(blocks(case.get("tier") or "quick"), visit, sweep.new_acc, case)
