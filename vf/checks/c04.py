"""
C04 - vector acceptance is exactly the version's grammar; errors follow the taxonomy.
E2: BFS over the edit graph around valid vectors (character- and field-level rewrites) plus the
classical bounded-exhaustive set of all short strings; every string is offered to all three
classes and the outcome compared with an independent recogniser (vf.ref.tables.classify_class).
"""

import itertools
import zlib

from .. import core, sweep
from ..engine import rewrite
from ..ref import tables as T

# 70-character alphabet: every character of any version's grammar, other-case forms, blanks,
# NUL, '.', digits, '-', '_', a Latin-1 letter and the fullwidth colon / solidus.
ALPHABET = sorted(set("ACDEFGHILMNOPRSTUVWXYabcdeglmnrux:/.0134 \t\n\0-_2é：／１¹٠()"))

MALFORMED_FIELDS = ["", "AV", "AV:", ":N", "AV:N:N", "AV::N", "av:n", " AV:N", "AV:N ", "AV=N",
                    "AV:NN", "CVSS:3.1", "CVSS:4.0", "X"]


def field_universe():
    u = []
    for fam in ("2", "3.1", "4.0"):
        for m, vals in T.METRICS[fam].items():
            for v in vals:
                f = "%s:%s" % (m, v)
                if f not in u:
                    u.append(f)
    return u + MALFORMED_FIELDS


FIELDS = field_universe()


def seeds(n_per_family):
    out = []
    for fam in T.FAMILIES:
        tab = T.METRICS[fam]
        nd = T.ND[fam]
        mand = T.MANDATORY[fam]
        opt = T.OPTIONAL[fam]
        first = dict((m, tab[m][0]) for m in tab)
        last = dict((m, [v for v in tab[m] if v != nd][-1]) for m in tab)
        s = []
        s.append(T.spell(fam, dict((m, first[m]) for m in mand)))                      # minimal
        s.append(T.spell(fam, last))                                                   # all defined
        s.append(T.spell(fam, dict(first, **dict((m, nd) for m in opt))))              # all ND
        mixed1 = dict((m, tab[m][len(tab[m]) // 2]) for m in mand)
        mixed1.update(dict((m, last[m]) for m in opt[::2]))
        s.append(T.spell(fam, mixed1, order=list(reversed([m for m in tab if m in mixed1]))))
        mixed2 = dict((m, last[m]) for m in mand)
        mixed2.update(dict((m, nd) for m in opt[1::3]))
        mixed2.update(dict((m, first[m]) for m in opt[::3]))
        s.append(T.spell(fam, mixed2))
        mixed3 = dict((m, first[m]) for m in mand)
        mixed3[opt[-1]] = last[opt[-1]]
        s.append(T.spell(fam, mixed3, order=[opt[-1]] + mand))
        out += s[:n_per_family]
    return out


PREFIXES = ["CVSS:3.0/", "CVSS:3.1/", "CVSS:4.0/", "CVSS:3.2/", "CVSS:3.10/", "cvss:3.1/", "CVSS:3.1",
            "CVSS:2.0/", "CVSS:3/", "CVSS:4.1/", "CVSS:3.1//", "CVSS:3.1/CVSS:3.1/", "", "/",
            "CVSS:4.0/CVSS:4.0/", "CVSS:3.0/CVSS:3.1/", " CVSS:3.1/", "CVSS:3.١/",
            # other characters that str.isdigit() / \\d / int() take for the digits of a version:
            # full-width, superscript, circled, Devanagari, mathematical bold
            "CVSS:3.\uff10/", "CVSS:4.\uff10/", "CVSS:\uff13.1/", "CVSS:\uff14.0/", "CVSS:3.\u00b9/", "CVSS:3.\u2460/",
            "CVSS:3.\u0966/", "CVSS:3.\U0001d7cf/", "CVSS:4.\u0660/", "CVSS\uff1a3.1/", "CVSS:3\uff0e1/"]


def split_prefix(s):
    for p in ("CVSS:3.0/", "CVSS:3.1/", "CVSS:4.0/"):
        if s.startswith(p):
            return p, s[len(p):]
    return "", s


def char_edits(s):
    for i in range(len(s)):
        yield s[:i] + s[i + 1:]
    for i in range(len(s) + 1):
        for c in ALPHABET:
            yield s[:i] + c + s[i:]
    for i in range(len(s)):
        for c in ALPHABET:
            if c != s[i]:
                yield s[:i] + c + s[i + 1:]


def small_universe(prefix):
    """Per family: one legal field per metric, the malformed fields and three foreign fields."""
    fam = {"": "2", "CVSS:3.0/": "3.0", "CVSS:3.1/": "3.1", "CVSS:4.0/": "4.0"}[prefix]
    tab = T.METRICS[fam]
    return ["%s:%s" % (m, tab[m][-1]) for m in tab] + MALFORMED_FIELDS + ["Au:N", "MS:C", "AT:P"]


_SMALL = dict((p, small_universe(p)) for p in ("", "CVSS:3.0/", "CVSS:3.1/", "CVSS:4.0/"))


def field_edits(s, small=False):
    prefix, body = split_prefix(s)
    fields = body.split("/") if body else []
    n = len(fields)
    J = "/".join
    for i in range(n):                                   # drop
        yield prefix + J(fields[:i] + fields[i + 1:])
    for i in range(n):                                   # duplicate at every position
        for j in range(n + 1):
            yield prefix + J(fields[:j] + [fields[i]] + fields[j:])
    for i in range(n):                                   # swap
        for j in range(i + 1, n):
            f = list(fields)
            f[i], f[j] = f[j], f[i]
            yield prefix + J(f)
    for f in (_SMALL[prefix] if small else FIELDS):      # insert / substitute
        for j in range(n + 1):
            yield prefix + J(fields[:j] + [f] + fields[j:])
        for j in range(n):
            yield prefix + J(fields[:j] + [f] + fields[j + 1:])
    for p in PREFIXES:                                   # prefix variants
        yield p + body


WRAPS = [("(", ")"), ("[", "]"), ("{", "}"), ("<", ">"), ('"', '"'), ("'", "'"), ("`", "`"), (" ", " "),
         ("\n", "\n"), ("\t", " "), ("*", "*"), ("_", "_"), ("((", "))"), ("(", ")."), ("CVSS(", ")"), ("\ufeff", ""),
         ("\u200b", "\u200b"), ("\u00a0", "\u00a0")]


def wrap_edits(s):
    """One edit at BOTH ends at once: the way vectors are quoted in reports and feeds (brackets,
    quotes, emphasis marks, blanks, a byte-order mark) - a lenient "clean-up" of the argument shows
    here and nowhere in the one-edit neighbourhood. Also around the body behind the prefix and
    around single fields."""
    for l, r in WRAPS:
        yield l + s + r
    prefix, body = split_prefix(s)
    if prefix:
        for l, r in WRAPS[:8]:
            yield prefix + l + body + r
    fields = body.split("/")
    for i in (0, len(fields) // 2, len(fields) - 1):
        for l, r in WRAPS[:8]:
            yield prefix + "/".join(fields[:i] + [l + fields[i] + r] + fields[i + 1:])
            if ":" in fields[i]:
                m, v = fields[i].split(":", 1)
                yield prefix + "/".join(fields[:i] + [m + ":" + l + v + r] + fields[i + 1:])


def neighbours(s, level):
    if level == 0:
        for t in char_edits(s):
            yield t
        for t in wrap_edits(s):
            yield t
    for t in field_edits(s):
        yield t


def neighbours_fields_only(s, level):
    return field_edits(s, small=True)


# ------------------------------------------------------------------ judging one string

_CLS = None


def _classes():
    global _CLS
    if _CLS is None:
        import cvss
        from cvss import exceptions as X
        _CLS = {}
        for major in (2, 3, 4):
            n = str(major)
            _CLS[major] = (getattr(cvss, "CVSS" + n), getattr(X, "CVSS%sMalformedError" % n),
                           getattr(X, "CVSS%sMandatoryError" % n), getattr(X, "CVSS%sError" % n),
                           X.CVSSError)
    return _CLS


def observe(major, s, wrap=None):
    cls, Mal, Man, Err, Root = _classes()[major]
    try:
        cls(s if wrap is None else wrap(s))
    except BaseException as e:  # noqa
        if isinstance(e, Mal) and isinstance(e, Err) and isinstance(e, Root):
            return "MALFORMED"
        if isinstance(e, Man) and isinstance(e, Err) and isinstance(e, Root):
            return "MANDATORY"
        if isinstance(e, Root):
            return "OTHER-CVSS-ERROR:%s" % type(e).__name__
        return "FOREIGN:%s" % type(e).__name__
    return "ACCEPT"


def judge_string(s):
    out = []
    for major in (2, 3, 4):
        want = T.classify_class(major, s)
        got = observe(major, s)
        if got != want:
            out.append((major, want, got))
        elif zlib.crc32(s.encode("utf-8", "surrogatepass")) % 8 == major:
            # every eighth string per class: the same characters as an instance of a str subclass
            got = observe(major, s, _text)
            if got != want:
                out.append((major, want, got + " (argument is an instance of a str subclass)"))
    return out


def _text(s):
    from .. import observe as O
    t = O.Text(s)
    t.origin = "somewhere"
    return t


def judge(acc, s):
    if acc is None:
        a = sweep.new_acc()
        return a
    acc["n"] += 1
    acc["calls"] += 3
    acc["cmp"] += 3
    diffs = judge_string(s)
    for major, want, got in diffs:
        sweep.bad(acc, {"what": "CVSS%d(%r): grammar says %s, constructor says %s" % (major, s, want, got),
                        "kind": "accept", "input": s, "major": major, "strsub": "str subclass" in got,
                        "signature": {"kind": "accept"}})
    if not diffs:
        kinds = tuple(T.classify_class(m, s) for m in (2, 3, 4))
        acc["outcomes"].add(kinds)
        reason = [T.parse(f, s)[1] for f in ("2", "3.1", "4.0")]
        if any(k != "MALFORMED" for k in kinds) or any(r != "prefix" and r != "unknown metric" for r in reason[1:]):
            acc["nontrivial"] += 1
        if len(acc["samples"]) < 2 and kinds != ("MALFORMED",) * 3:
            acc["samples"].append({"string": s, "verdict(v2,v3,v4)": kinds})
    return acc


def subset_strings():
    """Well-formed vectors that lack mandatory metrics in every degree: only optional metrics, a
    single mandatory metric, every prefix / suffix / every-other subset of the mandatory metrics,
    with and without optional metrics - the boundary between the two error classes."""
    out = []
    for fam in T.FAMILIES:
        tab = T.METRICS[fam]
        mand, opt = T.MANDATORY[fam], T.OPTIONAL[fam]
        val = dict((m, tab[m][-1]) for m in tab)
        sel = []
        for m in opt:
            sel.append([m])
        sel.append(list(opt))
        sel.append(opt[:2])
        for m in mand:
            sel.append([m])
            sel.append([m] + opt[:1])
        for k in range(1, len(mand)):
            sel.append(mand[:k])
            sel.append(mand[k:])
            sel.append(mand[:k] + opt)
        sel.append(mand[::2])
        sel.append(mand[1::2] + opt[::2])
        for ms in sel:
            out.append(T.spell(fam, dict((m, val[m]) for m in ms)))
            out.append(T.spell(fam, dict((m, val[m]) for m in ms), order=list(reversed([m for m in tab if m in ms]))))
        out.append(T.PREFIX[fam])
        out.append(T.PREFIX[fam].rstrip("/"))
    return sorted(set(out))


def long_strings():
    """Scale: hundreds of repeated / distinct fields, very long fields and values, long runs of
    separators - and the longest valid vectors in several orders."""
    out = []
    for fam in T.FAMILIES:
        tab = T.METRICS[fam]
        P = T.PREFIX[fam]
        full = dict((m, tab[m][-1]) for m in tab)
        v = T.spell(fam, full)
        f = v[len(P):].split("/")
        out += [v, P + "/".join(f[::-1]), P + "/".join(sorted(f)), P + "/".join(f * 2), P + "/".join(f * 200),
                P + "/".join(f + f[:1] * 500), v + "/" * 1000, P + "/" * 5000 + "/".join(f),
                P + "/".join(f[:-1] + [f[-1] + "A" * 100000]), P + "/".join(["A" * 100000 + ":N"] + f[1:]),
                P + "/".join(f[:-1] + [f[-1].split(":")[0] + ":" * 1000 + "N"]), P * 1000 + "/".join(f),
                v + "/ZZ:" + "9" * 50000, v + " " * 10000, "\n" * 1000 + v,
                P + "/".join("%s:%s" % (m, tab[m][0]) for m in list(tab) * 50)]
        if fam != "2":
            body = v[len(P):]
            out += [P[:-1] + "1" * 5000 + "/" + body, P[:-2] + "0" * 4400 + P[-2:] + body,
                    "CVSS:" + P[5] * 5000 + P[6:] + body, P[:-1] + "." + "0" * 5000 + "/" + body]
    return out


def _long_task(chunk):
    acc = sweep.new_acc()
    for s in chunk:
        judge(acc, s)
    return acc


def _subset_task(chunk):
    acc = sweep.new_acc()
    for s in chunk:
        judge(acc, s)
    return acc


def _scale_task(fam):
    """Scale: 6,000 distinct valid vectors of one family offered to all three classes in one
    process, each followed by a rejected variant of itself, then the first hundred again."""
    from .. import spaces
    acc = sweep.new_acc()
    vs = spaces.many_vectors(fam, 6000)
    for v in vs + vs[:100]:
        judge(acc, v)
        judge(acc, v + "/")
        if acc["bad"]:
            break
    return acc


def _short_task(t):
    chars, prefix_list, maxlen = t
    acc = sweep.new_acc()
    for p in prefix_list:
        for n in range(0, maxlen - len(p) + 1):
            for tail in itertools.product(chars, repeat=n):
                judge(acc, p + "".join(tail))
    return acc


def run(ctx, res):
    sd = seeds(6)
    accs, st = rewrite.explore(ctx, sd, neighbours, judge, depth=1, tag="depth1")
    ctx.log("edit graph depth 1: %d nodes, %d edges" % (st["nodes"], st["edges"]))
    stats = {"depth1": st}
    # depth 2 with field-level rewrites only, on the minimal seeds
    mins = seeds(1)
    if not ctx.thorough:
        mins = mins[:1] + mins[2:3]   # v2 and v3.1
    accs2, st2 = rewrite.explore(ctx, mins, neighbours_fields_only, judge, depth=2, tag="fields2")
    ctx.log("field-edit graph depth 2: %d nodes, %d edges" % (st2["nodes"], st2["edges"]))
    stats["fields_depth2"] = st2
    if ctx.thorough:
        # character-level distance 2 around the minimal v2 vector
        accs_c, st_c = rewrite.explore(ctx, seeds(1)[:1], lambda s, level: char_edits(s), judge,
                                       depth=2, parts=256, tag="chars2")
        ctx.log("char-edit graph depth 2: %d nodes, %d edges" % (st_c["nodes"], st_c["edges"]))
        stats["chars_depth2_v2_minimal"] = st_c
        accs2 = accs2 + accs_c
        st2 = dict(st2, edges=st2["edges"] + st_c["edges"])
    # all short strings
    chars = "AVC:/NS3.1"
    maxlen = 6 if ctx.thorough else 5
    firsts = [c for c in chars]
    tasks = [(chars, [c1 + c2 for c2 in chars], maxlen) for c1 in firsts]
    accs3 = core.task_map(_short_task, tasks)
    short_n = sum(a["n"] for a in accs3)
    longs = long_strings()
    accs3 += core.task_map(_long_task, [longs[i::8] for i in range(8)])
    stats["long_strings"] = len(longs)
    subs = subset_strings()
    accs3 += core.task_map(_subset_task, [subs[i::8] for i in range(8)])
    stats["subset_strings"] = len(subs)
    accs3 += core.task_map(_scale_task, list(T.FAMILIES))
    stats["scale_vectors_per_family_in_one_process"] = 6000
    extra = sweep.new_acc()
    for s in [""] + firsts:
        judge(extra, s)
    tot = sweep.merge(accs + accs2 + accs3 + [extra])
    cov = res.coverage
    cov["states"] = tot["n"]
    cov["transitions"] = st["edges"] + st2["edges"] + short_n
    cov["traces_validated_against_impl"] = tot["cmp"]
    cov["evaluations"] = tot["n"]
    cov["distinct_nontrivial"] = tot["nontrivial"]
    cov["distinct_outcomes"] = len(tot["outcomes"])
    cov["outcome_classes_seen"] = sorted("/".join(o) for o in tot["outcomes"])
    cov["graph"] = stats
    cov["short_strings"] = short_n + extra["n"]
    cov["seeds"] = sd
    cov["rule"] = ("states = distinct strings (BFS dedup on the string) offered to CVSS2, CVSS3 and "
                   "CVSS4; transitions = rewrite edges generated; each state's three outcomes "
                   "(accept / malformed / mandatory / anything else) compared with the independent "
                   "recogniser; non-trivial = rejected for a reason other than a missing prefix or "
                   "an unknown metric, or accepted by some class")
    cov["exhaustive"] = False
    cov["bound"] = ("edit distance 1 (character insert/delete/replace over a %d-character alphabet; "
                    "field drop/duplicate/swap/insert/substitute over a %d-field universe; prefix "
                    "variants) around %d seeds; field-level distance 2 around %d minimal seeds; all "
                    "strings of length <= %d over %r" % (len(ALPHABET), len(FIELDS), len(sd),
                                                           len(mins), maxlen, chars))
    cov["samples"] = ctx.rot(tot["samples"])[:8]
    for c in tot["bad"]:
        res.add_violation(c)
    cov["violating_cases_total"] = tot["nbad"]
    res.assumptions.append("the quantifier (all str values) is unbounded; the verdict is for the "
                           "stated edit-distance / length bound")


def replay(case):
    s, major = case["input"], case["major"]
    want, got = T.classify_class(major, s), observe(major, s, _text if case.get("strsub") else None)
    return want != got, "grammar %s, constructor %s" % (want, got)


class _Ctx(object):
    thorough = False

    def rot(self, x):
        return list(x)

    def log(self, *a):
        pass


def replay_task(case):
    t = case["task"]
    if isinstance(t, dict):
        return core.replay_func_task(case)
    tag, level, chunk, parts = t
    tier = case.get("tier") or "quick"
    if tag == "depth1":
        accs, _ = rewrite.explore(_Ctx(), seeds(6), neighbours, judge, 1, parts, tag, (level, chunk), case["input"])
    elif tag == "fields2":
        mins = seeds(1)
        if tier != "thorough":
            mins = mins[:1] + mins[2:3]
        accs, _ = rewrite.explore(_Ctx(), mins, neighbours_fields_only, judge, 2, parts, tag, (level, chunk), case["input"])
    else:
        accs, _ = rewrite.explore(_Ctx(), seeds(1)[:1], lambda s, level: char_edits(s), judge, 2, parts, tag,
                                  (level, chunk), case["input"])
    for a in accs:
        for c in a.get("bad", []):
            if c.get("input") == case["input"] and c.get("major") == case.get("major"):
                return True, c["what"]
    return False, "the chunk no longer fails on %r" % (case["input"],)
