"""
C08 - every vector string the library emits is valid for its version.
E1: all subsets of optional metrics defined (2^8 v2, 2^14 v3 x 2 minors, v4: 2^21 thorough / all
subsets of size <=3 and their complements quick), values rotated with the subset index, several
input orders; plus the interactive builder's outputs. Oracle: (i) the library's own constructor
accepts the emitted string, (ii) it matches the vectorString pattern of the pinned FIRST schema,
(iii) rh_vector() is '<score>/' + exactly clean_vector().
"""

import itertools
import json
import os
import re

from .. import core, dialogue, observe, sweep
from ..ref import tables as T

SCHEMA = {"2": "cvss-v2.0.json", "3.0": "cvss-v3.0.json", "3.1": "cvss-v3.1.json",
          "4.0": "cvss-v4.0.json"}
_PAT = {}


def pattern(fam):
    if fam not in _PAT:
        with open(os.path.join(core.VERIF, "data", "schemas", SCHEMA[fam])) as f:
            s = json.load(f)
        _PAT[fam] = re.compile(s["properties"]["vectorString"]["pattern"])
    return _PAT[fam]


def check_emitted(fam, text, what):
    """An emitted vector string must be accepted by the parser and match FIRST's pattern."""
    cls = observe.cls_of(fam)
    try:
        cls(text)
    except Exception as e:  # noqa
        return "%s %r is rejected by the library's own parser: %s: %s" % (what, text, type(e).__name__, e)
    if not pattern(fam).search(text):
        return "%s %r does not match the vectorString pattern of FIRST's %s schema" % (
            what, text, SCHEMA[fam])
    return None


def vector_for(fam, mask, rot, order_mode):
    """Subset `mask` of the optional metrics defined; values chosen by rotation."""
    tab = T.METRICS[fam]
    nd = T.ND[fam]
    asg = {}
    for i, m in enumerate(T.MANDATORY[fam]):
        asg[m] = tab[m][(rot + i + mask) % len(tab[m])]
    for b, m in enumerate(T.OPTIONAL[fam]):
        if mask >> b & 1:
            dom = [v for v in tab[m] if v != nd]
            asg[m] = dom[(rot + b + (mask >> 3)) % len(dom)]
        elif (mask + b + rot) % 11 == 0:
            asg[m] = nd                     # a few explicit Not Defined fields as well
    order = [m for m in tab if m in asg]
    if order_mode == 1:
        order = order[::-1]
    elif order_mode == 2:
        order = order[1::2] + order[0::2]
    return T.spell(fam, asg, order), asg


def judge(fam, vec, entries=True):
    """The object built by the constructor and - for strings the model accepts - the objects
    obtained through every other entry point (observe.construct) emit valid strings."""
    cv0 = None
    for entry in ["direct"] + (list(observe.ENTRIES) if entries else []):
        observe.ENTRY = entry
        try:
            try:
                obj = observe.construct(fam, vec)
                cv = obj.clean_vector()
                rh = obj.rh_vector()
            except Exception as e:  # noqa
                return "raised %s: %s%s" % (type(e).__name__, e, observe.via()), cv0
            via = observe.via()
        finally:
            observe.ENTRY = "direct"
        if cv0 is None:
            cv0 = cv
        why = check_emitted(fam, cv, "clean_vector()")
        if why:
            return why + via, cv0
        if type(cv) is not type("") or type(rh) is not type(""):
            # what is emitted is text of the library's making, not an object of the caller's
            if str(cv) != cv or str(rh) != rh or format(cv) != cv or format(rh) != rh:
                return "an emitted string is an instance of %s / %s whose str()/format() is not its text%s" % (
                    type(cv).__name__, type(rh).__name__, via), cv0
        parts = rh.split("/", 1)
        if len(parts) != 2 or parts[1] != cv or str(parts[1]) != str(cv0):
            return "rh_vector() %r is not '<score>/' + clean_vector() %r%s" % (rh, cv, via), cv0
        try:
            float(parts[0])
        except ValueError:
            return "rh_vector() %r does not start with a score%s" % (rh, via), cv0
    return None, cv0


def _task(t):
    fam, masks, rots, orders = t
    acc = sweep.new_acc()
    emitted = acc["extra"].setdefault("fields", set())
    for mask in masks:
        for rot in rots:
            for om in orders:
                vec, asg = vector_for(fam, mask, rot, om)
                acc["n"] += 1
                acc["calls"] += 4
                acc["cmp"] += 3
                # v4: the other entry points on every eighth subset and on the complete one
                why, cv = judge(fam, vec, fam != "4.0" or mask % 8 == 0 or mask == (1 << len(T.OPTIONAL[fam])) - 1)
                if why:
                    sig = {"kind": "emitted", "family": fam}
                    if "does not match the vectorString pattern" in why and fam == "4.0":
                        sig["pattern_only"] = True
                    sweep.bad(acc, {"what": "%s(%r): %s" % (T.CLASSNAME[fam], vec, why),
                                    "kind": "emitted", "input": vec, "family": fam, "signature": sig})
                else:
                    if mask:
                        acc["nontrivial"] += 1
                    for f in cv[len(T.PREFIX[fam]):].split("/"):
                        emitted.add((fam, f))
                    if not acc["samples"] and mask:
                        acc["samples"].append({"input": vec, "clean_vector": cv})
    return acc


def _layout_task(fam):
    """Inputs that define every metric (three value choices), written in every block layout: what is
    emitted must not depend on, let alone repeat, the order of the input."""
    acc = sweep.new_acc()
    for pick in (-1, 0, 1):
        asg = T.full_assignment(fam, pick)
        for rev in (False, True):
            for order in T.block_layouts(fam, asg, rev):
                vec = T.spell(fam, asg, order)
                acc["n"] += 1
                acc["calls"] += 4
                acc["cmp"] += 3
                why, cv = judge(fam, vec, False)
                if why:
                    sig = {"kind": "emitted", "family": fam}
                    if "does not match the vectorString pattern" in why and fam == "4.0":
                        sig["pattern_only"] = True
                    sweep.bad(acc, {"what": "%s(%r): %s" % (T.CLASSNAME[fam], vec, why),
                                    "kind": "emitted", "input": vec, "family": fam, "signature": sig})
                else:
                    acc["nontrivial"] += 1
    return acc


def _lenient_task(chunk):
    """Strings near valid vectors: whatever the library accepts among them is an accepted vector,
    and what it then emits must be valid too (whether it should have been accepted is C04's)."""
    acc = sweep.new_acc()
    for fam, s in chunk:
        try:
            observe.cls_of(fam)(s)
        except Exception:  # noqa
            continue
        acc["n"] += 1
        acc["calls"] += 3
        acc["cmp"] += 2
        why, cv = judge(fam, s, entries=T.classify(fam, s) == "ACCEPT")
        if why:
            sweep.bad(acc, {"what": "%s(%r) is accepted and %s" % (T.CLASSNAME[fam], s, why), "kind": "emitted",
                            "input": s, "family": fam, "signature": {"kind": "emitted", "family": fam, "lenient": True}})
        elif T.classify(fam, s) == "ACCEPT":
            acc["nontrivial"] += 1
    return acc


def builder_cases(fam):
    """Answer scripts whose outputs are checked: first / last / middle legal value everywhere."""
    tab = T.METRICS[fam]
    picks = [lambda m: [tab[m][0]], lambda m: [tab[m][-1]], lambda m: [tab[m][len(tab[m]) // 2]],
             lambda m: [tab[m][-1].lower()],
             lambda m: ["", tab[m][-1]],          # Enter first (Not Defined where legal, else re-asked)
             lambda m: ["?", "", tab[m][0]]]
    for allm in (False, True):
        for nc in (False, True):
            for k, pick in enumerate(picks):
                yield allm, nc, k, pick


def judge_builder(fam, allm, nc, k):
    pick = list(builder_cases(fam))[0]
    for a, n, kk, p in builder_cases(fam):
        if (a, n, kk) == (allm, nc, k):
            pick = p
    from . import c16
    # every other run passes the version in its other numeric spelling (2.0, 3, 4)
    va = c16.ALT_VERSION.get(fam) if (k + int(allm)) % 2 else None
    run = dialogue.run_builder(fam, allm, nc, {}, pick, version_arg=va)
    if "result" not in run:
        # whether the builder accepts these answers is C16's business, not this property's
        return None, None
    return check_emitted(fam, run["result"], "the interactive builder's result"), run["result"]


def run(ctx, res):
    tasks = []
    nopt = dict((f, len(T.OPTIONAL[f])) for f in T.FAMILIES)
    tasks.append(("2", list(range(1 << nopt["2"])), (0, 1, 2), (0, 1, 2)))
    for fam in ("3.0", "3.1"):
        allm = list(range(1 << nopt[fam]))
        for lo, hi in core.split_range(len(allm), 32):
            tasks.append((fam, allm[lo:hi], (0, 1) if ctx.thorough else (0,), (0, 1, 2) if ctx.thorough else (lo % 3,)))
    n4 = nopt["4.0"]
    if ctx.thorough:
        for lo, hi in core.split_range(1 << n4, 512):
            tasks.append(("4.0", range(lo, hi), (0,), (0,)))
        v4desc = "all 2^%d subsets" % n4
    else:
        full = (1 << n4) - 1
        masks = set([0, full])
        for r in (1, 2, 3):
            for comb in itertools.combinations(range(n4), r):
                mk = sum(1 << b for b in comb)
                masks.add(mk)
                masks.add(full ^ mk)
        masks = sorted(masks)
        for lo, hi in core.split_range(len(masks), 48):
            tasks.append(("4.0", masks[lo:hi], (0, 1), (0, 2)))
        v4desc = "all subsets of size <=3 and their complements (%d)" % len(masks)
    accs = core.task_map(_task, ctx.rot(tasks))
    accs += core.task_map(_layout_task, list(T.FAMILIES))
    from . import c04
    near = []
    for seed in c04.seeds(2):
        major = {"": 2, "CVSS:3.0/": 3, "CVSS:3.1/": 3, "CVSS:4.0/": 4}[c04.split_prefix(seed)[0]]
        cands = list(c04.field_edits(seed, small=True))
        if len(seed) < 80:
            cands += list(c04.char_edits(seed))
        for t in cands:
            near.append((T.family_of(major, t), t))
    accs += core.task_map(_lenient_task, [near[i::32] for i in range(32)])
    # interactive builder outputs
    b = sweep.new_acc()
    for fam in T.FAMILIES:
        for allm, nc, k, pick in builder_cases(fam):
            b["n"] += 1
            b["calls"] += 1
            b["cmp"] += 2
            why, out = judge_builder(fam, allm, nc, k)
            if why:
                sig = {"kind": "builder", "family": fam}
                if "does not match the vectorString pattern" in why and fam == "4.0":
                    sig["pattern_only"] = True
                sweep.bad(b, {"what": "ask_interactively(%s, all=%s): %s" % (fam, allm, why),
                              "kind": "builder", "family": fam, "input": [allm, nc, k],
                              "signature": sig})
            elif out is not None:
                b["nontrivial"] += 1
                if allm and k == 1 and len(b["samples"]) < 4:
                    b["samples"].append({"builder_output": out})
    tot = sweep.merge(accs + [b])
    fields = set()
    for a in accs:
        fields |= a["extra"].get("fields", set())
    universe = set((fam, "%s:%s" % (m, v)) for fam in T.FAMILIES for m, vals in T.METRICS[fam].items()
                   for v in vals if v != T.ND[fam])
    cov = res.coverage
    cov["states"] = tot["n"]
    cov["transitions"] = tot["calls"]
    cov["traces_validated_against_impl"] = tot["cmp"]
    cov["evaluations"] = tot["n"]
    cov["distinct_nontrivial"] = tot["nontrivial"]
    cov["emitted_metric_value_pairs_seen"] = len(fields & universe)
    cov["emitted_metric_value_pairs_possible"] = len(universe)
    cov["builder_runs"] = b["n"]
    cov["rule"] = ("states = accepted vectors, one per (subset of optional metrics defined, value "
                   "rotation, input order) plus interactive-builder runs; every emitted string "
                   "(clean_vector, RH vector part, builder result) is re-parsed by the library and "
                   "matched against the vectorString regex of the pinned FIRST schema; non-trivial "
                   "= at least one optional metric defined")
    cov["exhaustive"] = True
    cov["bound"] = ("v2: all 2^8 subsets x 3 rotations x 3 orders; v3: all 2^14 x 2 minors; v4: " + v4desc +
                    "; all-metrics inputs in every permutation of the metric blocks")
    cov["samples"] = ctx.rot(tot["samples"])[:8]
    for c in tot["bad"]:
        res.add_violation(c)
    cov["violating_cases_total"] = tot["nbad"]


def replay(case):
    if case["kind"] == "builder":
        allm, nc, k = case["input"]
        why, out = judge_builder(case["family"], allm, nc, k)
        return bool(why), why or "builder output %r is valid" % (out,)
    why, cv = judge(case["family"], case["input"])
    return bool(why), why or "emitted %r is valid" % (cv,)


def replay_task(case):
    return core.replay_func_task(case)
