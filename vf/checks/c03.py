"""
C03 - CVSS v2 scores equal the guide's equations; None-ness exact.
E1 product sweep on the real CVSS2 class against vf.ref.score2 (exact rationals).
"""

from .. import core, observe, spaces, sweep
from ..engine import product
from ..ref import official, score2, tables as T


def model(fam, asg):
    b, t, e = score2.scores(asg)
    f = lambda s: None if s is None else [x / 10.0 for x in s]
    return ([b / 10.0], f(t), f(e))


def judge(vec, asg):
    """Returns (violation-or-None, observed, expected)."""
    import cvss

    exp = score2.scores(asg)
    try:
        got = observe.construct("2", vec).scores()
    except Exception as e:  # noqa
        return ("constructor/scores() raised %s: %s" % (type(e).__name__, e)), None, exp
    eb, et, ee = exp
    if not (isinstance(got, tuple) and len(got) == 3):
        return "scores() is not a 3-tuple: %r" % (got,), got, exp
    if "-" in repr(got):
        return "a score is negative (or negative zero, which prints as -0.0): %r" % (got,), got, exp
    if got[0] is None or got[0] != eb / 10.0:
        return "base score %r, guide equations give %r" % (got[0], eb / 10.0), got, exp
    for slot, name, e in ((1, "temporal", et), (2, "environmental", ee)):
        g = got[slot]
        if e is None:
            if g is not None:
                return "%s score %r reported although every %s metric is absent/ND" % (
                    name, g, name), got, exp
        elif g is None:
            return "%s score None although a %s metric is defined (expected %s)" % (
                name, name, sorted(x / 10.0 for x in e)), got, exp
        elif not any(g == x / 10.0 for x in e):
            return "%s score %r, guide equations give %s" % (
                name, g, sorted(x / 10.0 for x in e)), got, exp
    return None, got, exp


def visit(acc, blk, vec, asg, idx):
    acc["n"] += 1
    acc["calls"] += 2
    why, got, exp = judge(vec, asg)
    acc["cmp"] += 3
    if why:
        sweep.bad(acc, {"what": "CVSS2(%r): %s" % (vec, why), "kind": "score2", "input": vec,
                        "signature": {"kind": "score2"}})
        return
    if got[0] != 0.0:
        acc["nontrivial"] += 1
    acc["outcomes"].add(got)
    if exp[2] is not None and len(exp[2]) > 1:
        acc["extra"]["ambiguous"] = acc["extra"].get("ambiguous", 0) + 1
    if not acc["samples"]:
        acc["samples"].append({"vector": vec, "scores": got})


def blocks(tier):
    extra = []
    if tier != "thorough":
        # the complete base x temporal x requirement quotient (CDP/TD absent): conditions that span
        # all three groups at once (the thorough tier's full product contains it)
        req = spaces.parts(["CR", "IR", "AR"], dict((m, [v for v in T.V2[m] if v != "ND"]) for m in ("CR", "IR", "AR")))
        extra.append(product.Block("v2.base_x_temporal_x_requirements", "2", spaces.v2_base_all(),
                                   spaces.ABSENT + spaces.v2_temporal_effective(), req))
    return spaces.v2_blocks(tier) + extra + [spaces.interaction_block("2", tier), spaces.layout_block("2")]


def run(ctx, res):
    n_off = official.validate("2", model)
    ctx.log("reference model reproduces %d official v2 vectors" % n_off)
    blocks_ = blocks(ctx.tier)
    accs = product.run(ctx, blocks_, visit, sweep.new_acc)
    tot = sweep.merge(accs)
    amb = sum(a["extra"].get("ambiguous", 0) for a in accs)
    sweep.fill(res, ctx, tot, blocks_,
               "every point of the listed product blocks over the v2 metric tables is constructed "
               "with the real CVSS2 class and its scores() compared with the exact-rational model; "
               "points are distinct by construction; non-trivial = base score is not 0.0",
               exhaustive=True)
    res.coverage["official_vectors_reproduced_by_model"] = n_off
    res.coverage["interaction_rows"] = spaces.interaction_evidence(["2"], ctx.tier)
    res.coverage["points_where_negative_tie_rounding_admits_two_values"] = amb
    res.coverage["bound"] = ("full 729 x 49 x 541 product + spelling blocks" if ctx.thorough else
                             "<=1 free group around a 54 x 8 x 12 skeleton, base x temporal, "
                             "base x environmental, + spelling blocks")
    res.assumptions += [
        "float(tenths/10) equals float(Decimal) for one-decimal values (both correctly rounded)",
        "negative intermediates: half away from zero and half towards +inf are both admitted",
    ]


def replay(case):
    vec = case["input"]
    verdict, got = T.parse("2", vec)
    if verdict != "ACCEPT":
        raise core.HarnessError("replay input is not a valid v2 vector")
    why, obs, exp = judge(vec, dict(got))
    return bool(why), why or "scores %r as the guide's equations" % (obs,)


def replay_task(case):
    return product.replay_task(blocks(case.get("tier") or "quick"), visit, sweep.new_acc, case)
