"""
C11 - JSON output is faithful to the object; sort and minimal only reorder / omit.
E1 sweep x {sort} x {minimal} over the JSON spaces; oracle = the model's own parse of the input
plus the names tables (vf.ref.names) and the object's own scores()/severities().
"""

import json

from .. import core, jsonspace, observe, sweep
from ..engine import product
from ..ref import names, tables as T

OPTS = [(False, False), (True, False), (False, True), (True, True)]


def check_instance(fam, vec, got, obj, d, sort, minimal):
    """Checks on one as_json() result. Returns why-or-None."""
    if not hasattr(d, "keys") or not hasattr(d, "items"):
        return "as_json() is not a mapping"
    if d.get("version") not in names.VERSION[fam]:
        return "version field %r does not identify CVSS %s" % (d.get("version"), fam)
    if d.get("vectorString") != vec:
        return "vectorString %r is not the string supplied" % (d.get("vectorString"),)
    sc, sv = obj.scores(), obj.severities()
    if "baseScore" not in d:
        return "baseScore is missing"
    gr = names.groups(fam)
    slots = [("baseScore", "baseSeverity", 0)]
    if fam != "4.0":
        slots += [(gr["temporal"][1], gr["temporal"][2] or "temporalSeverity", 1),
                  (gr["environmental"][1], gr["environmental"][2] or "environmentalSeverity", 2)]
    for skey, vkey, i in slots:
        if skey in d and sc[i] is not None:
            if type(d[skey]) is not float or d[skey] != sc[i]:
                return "%s is %r but the score is %r" % (skey, d[skey], sc[i])
        if vkey in d and sc[i] is not None:
            if not isinstance(d[vkey], str) or d[vkey].upper() != sv[i].upper():
                return "%s is %r but the rating is %r" % (vkey, d[vkey], sv[i])
    # metric fields
    present_groups = {}
    for m in T.METRICS[fam]:
        keys = [k for k in names.admitted_keys(fam, m) if k in d]
        grp = None
        for g, (ms, _, _) in gr.items():
            if m in ms:
                grp = g
        if not keys:
            if grp is None:
                return "no field for metric %s (a base%s metric)" % (m, "/supplemental" if fam == "4.0" else "")
            present_groups.setdefault(grp, []).append((m, False))
            continue
        if grp is not None:
            present_groups.setdefault(grp, []).append((m, True))
        want = names.admitted_values(fam, m, names.effective(fam, got, m))
        for k in keys:
            if d[k] not in want:
                return "field %s is %r; the effective value of %s is %s (%s)" % (
                    k, d[k], m, names.effective(fam, got, m), " / ".join(want))
    nd = T.ND[fam]
    for g, (ms, skey, vkey) in gr.items():
        flags = [p for _, p in present_groups.get(g, [])]
        defined = any(got.get(m, nd) != nd for m in ms)
        if any(flags) and not all(flags):
            return "the %s group is only partly present (missing %s)" % (
                g, [m for m, p in present_groups[g] if not p])
        if defined and not all(flags):
            return "the %s group is omitted although %s is defined" % (
                g, [m for m in ms if got.get(m, nd) != nd][0])
        if defined and fam != "4.0" and skey not in d:
            return "%s is omitted although the %s group is defined" % (skey, g)
        if flags and not any(flags) and (skey in d or (vkey and vkey in d)):
            return "%s present without the %s metrics" % (skey, g)
    if sort:
        ks = list(d.keys())
        if ks != sorted(ks):
            return "sort=True but the keys are not in ascending order"
    return None


def judge(fam, vec):
    verdict, got = T.parse(fam, vec)
    if verdict != "ACCEPT":
        raise core.HarnessError("C11 generated an invalid vector %r" % (vec,))
    try:
        obj = observe.construct(fam, vec)
        ds = [obj.as_json(sort=s, minimal=m) for s, m in OPTS]
    except Exception as e:  # noqa
        return "raised %s: %s" % (type(e).__name__, e), None, None
    for (s, m), d in zip(OPTS, ds):
        why = check_instance(fam, vec, got, obj, d, s, m)
        if why:
            return why, (s, m), ds
    # sort changes nothing but the order
    for a, b, m in ((0, 1, False), (2, 3, True)):
        if dict(ds[a]) != dict(ds[b]):
            return "sort=True changes the content (minimal=%s)" % m, (True, m), ds
    # minimal only removes whole groups
    gr = names.groups(fam)
    full, mini = dict(ds[0]), dict(ds[2])
    for k, v in mini.items():
        if k not in full or full[k] != v or type(full[k]) is not type(v):
            return "minimal=True changes or adds field %s" % k, (False, True), ds
    removed = set(full) - set(mini)
    allowed = set()
    for g, (ms, skey, vkey) in gr.items():
        gkeys = set(k for m in ms for k in names.admitted_keys(fam, m)) | set([skey])
        if vkey:
            gkeys.add(vkey)
        gkeys &= set(full)
        if gkeys and gkeys <= removed:
            allowed |= gkeys
        elif gkeys & removed:
            return "minimal=True removes only part of the %s group: %s" % (g, sorted(gkeys & removed)), (False, True), ds
    if removed - allowed:
        return "minimal=True removes %s, which is not a temporal/environmental group" % sorted(removed - allowed), (False, True), ds
    return None, None, ds


def visit(acc, blk, vec, asg, idx):
    visit_vec(acc, blk.family, vec)


def visit_vec(acc, fam, vec):
    acc["n"] += 1
    acc["calls"] += 7
    acc["cmp"] += 4
    why, opts, ds = judge(fam, vec)
    if why:
        sweep.bad(acc, {"what": "%s(%r).as_json%s: %s" % (T.CLASSNAME[fam], vec,
                                                         "(sort=%s, minimal=%s)" % opts if opts else "", why),
                        "kind": "json", "family": fam, "input": vec, "signature": {"kind": "json"}})
        return
    removed = len(ds[0]) - len(ds[2])
    acc["outcomes"].add((fam, removed))
    if removed:
        acc["nontrivial"] += 1
    if not acc["samples"]:
        acc["samples"].append({"vector": vec, "minimal_sorted": json.loads(json.dumps(ds[3]))})


def _resp_task(chunk):
    acc = sweep.new_acc()
    for fam, vec in chunk:
        visit_vec(acc, fam, vec)
    return acc


def run(ctx, res):
    blocks = jsonspace.blocks(ctx.tier)
    accs = product.run(ctx, blocks, visit, sweep.new_acc)
    resp = jsonspace.respellings(40 if ctx.thorough else 24)
    accs += core.pool_map(_resp_task, [resp[i::16] for i in range(16)])
    tot = sweep.merge(accs)
    sweep.fill(res, ctx, tot, blocks,
               "states = accepted vectors; each is serialised with all four (sort, minimal) pairs; "
               "version/vectorString/score/severity fields are compared with the input and the "
               "object's own accessors, every metric field with the effective value from the "
               "model's parse through the names table; sort=True must equal sort=False with "
               "ascending keys; minimal=True must be a sub-mapping lacking only whole, undefined "
               "temporal/environmental groups; non-trivial = minimal actually removed something",
               exhaustive=True)
    res.coverage["transitions"] = tot["n"] * 4
    res.coverage["respelled_inputs"] = len(resp)
    res.coverage["distinct_outcomes"] = len(tot["outcomes"])
    res.coverage["bound"] = "JSON spaces of vf/jsonspace.py (%s tier) x 4 option pairs" % ctx.tier


def replay(case):
    why, opts, ds = judge(case["family"], case["input"])
    return bool(why), why or "faithful"


def replay_task(case):
    return product.replay_task(jsonspace.blocks(case.get("tier") or "quick"), visit, sweep.new_acc, case)
