"""
C20 - identical behaviour on every supported Python (2.7 and 3.6 to 3.13).
E5: the probe program runs under each installed interpreter; its chunk digests must equal the
reference interpreter's (/venv's 3.12). The reference's own results are what C01-C19 check.
"""

import os

from .. import core
from ..engine import config

VERSIONS = ["2.7.18", "3.6.15", "3.7.16", "3.8.18", "3.9.18", "3.10.13", "3.11.7", "3.12.1", "3.13.0"]
REF = config.Config("venv-3.12", "/venv/bin/python")


def interpreters():
    out = []
    for v in VERSIONS:
        p = "/root/.pyenv/versions/%s/bin/python" % v
        if not os.path.exists(p):
            raise core.HarnessError("interpreter %s is not installed" % p)
        out.append(config.Config("cpython-" + v, p))
    return out


def run(ctx, res):
    cfgs = interpreters()
    results, stats = config.compare(ctx, REF, cfgs, ctx.tier)
    cov = res.coverage
    cov["states"] = stats["cases"] * (len(cfgs) + 1)
    cov["transitions"] = stats["comparisons"]
    cov["traces_validated_against_impl"] = stats["comparisons"]
    cov["evaluations"] = stats["cases"] * (len(cfgs) + 1)
    cov["distinct_nontrivial"] = stats["cases"]
    cov["interpreters"] = [c.name for c in cfgs] + [REF.name]
    cov["cases_per_interpreter"] = stats["cases"]
    cov["chunks"] = stats["chunks"]
    cov["not_compared"] = ["key order of as_json(sort=False) (plain dict, arbitrary before 3.7)",
                           "!= (no __ne__ on 2.7; outside the statement)",
                           "float() spellings Python itself changed (PEP 515 '7_5')",
                           "non-ASCII argv on 2.7 (bytes)"]
    cov["rule"] = ("states = (interpreter, input) pairs; the probe enumerates vectors of every version, "
                   "invalid strings, RH notation, texts, builder scripts and command lines, evaluates "
                   "them on the real library and prints a digest per chunk of canonical JSON result "
                   "lines; every chunk under every interpreter must equal the reference's; "
                   "non-trivial = cases per interpreter")
    cov["exhaustive"] = True
    cov["bound"] = "%d interpreters x %d cases (%s tier probe)" % (len(cfgs) + 1, stats["cases"], ctx.tier)
    cov["samples"] = [{"config": c.key()} for c in ctx.rot(cfgs)[:2]]
    for r in results:
        cname = r["config"]["name"]
        if r["kind"] == "crash":
            what = "under %s the package/probe fails: %s" % (cname, r["stderr"][-300:])
            sig = {"kind": "crash", "interpreter": cname}
        else:
            what = "under %s the result differs from %s's for case %s | got %s" % (
                cname, REF.name, r["ref_line"][:260], r["cfg_line"][:260])
            sig = {"kind": "diff", "section": r["section"], "interpreter": cname}
        res.add_violation(dict(r, what=what, signature=sig, tier=ctx.tier))


def replay(case):
    return config.replay_diff(REF, case, case.get("tier", "quick"))
