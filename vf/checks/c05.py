"""
C05 - outputs do not depend on field order or on spelling out Not Defined.
E2: BFS over the rewrite graph (swap two fields, move a field, reverse, rotate, insert an explicit
ND/X for an absent optional metric anywhere, delete an ND/X field) around value-covering seeds,
plus complete permutation groups of the base fields and complete power sets of explicit-ND
spellings. Differential oracle: the observation tuple of every node equals its seed's.
"""

import itertools
import json
import zlib
from collections import OrderedDict

from .. import core, observe, sweep
from ..engine import rewrite
from ..ref import tables as T

_SEEDOBS = {}   # model key -> (seed string, observation, family)
_SEEDOBJ = {}


def fam_of(s):
    for fam in ("3.0", "3.1", "4.0"):
        if s.startswith(T.PREFIX[fam]):
            return fam
    return "2"


def fields_of(s):
    fam = fam_of(s)
    return fam, s[len(T.PREFIX[fam]):].split("/")


def neighbours(s, level):
    fam, f = fields_of(s)
    P = T.PREFIX[fam]
    n = len(f)
    J = "/".join
    for i in range(n):
        for j in range(i + 1, n):
            g = list(f)
            g[i], g[j] = g[j], g[i]
            yield P + J(g)
    for i in range(n):
        rest = f[:i] + f[i + 1:]
        for j in range(n):
            if j != i:
                yield P + J(rest[:j] + [f[i]] + rest[j:])
    yield P + J(f[::-1])
    for r in range(1, n):
        yield P + J(f[r:] + f[:r])
    nd = T.ND[fam]
    present = set(x.split(":")[0] for x in f)
    for m in T.OPTIONAL[fam]:
        if m not in present:
            x = "%s:%s" % (m, nd)
            for j in range(n + 1):
                yield P + J(f[:j] + [x] + f[j:])
    for i in range(n):
        m, v = f[i].split(":")
        if v == nd and m in T.OPTIONAL[fam]:
            yield P + J(f[:i] + f[i + 1:])


def judge_string(s):
    fam = fam_of(s)
    verdict, got = T.parse(fam, s)
    if verdict != "ACCEPT":
        raise core.HarnessError("C05 generated a string the model rejects: %r" % s)
    key = T.model_key(fam, got)
    if key not in _SEEDOBS:
        raise core.HarnessError("C05 rewrite left the seed's equivalence class: %r" % s)
    seed, want, _ = _SEEDOBS[key]
    return compare(fam, seed, s, want)


def compare(fam, seed, s, want=None):
    cls = observe.cls_of(fam)
    try:
        so = _SEEDOBJ.get(seed)
        if so is None:
            so = _SEEDOBJ[seed] = cls(seed)
        if want is None:
            want = observe.observation(fam, so)
        obj = cls(s)
        got = json.loads(json.dumps(observe.observation(fam, obj)))
        want = json.loads(json.dumps(want))
    except Exception as e:  # noqa
        return "raised %s: %s" % (type(e).__name__, e)
    for k in sorted(want):
        if got.get(k) != want[k]:
            return "%s is %r, but %r for the equivalent vector %r" % (k, got.get(k), want[k], seed)
    if not (obj == so) or not (so == obj):
        return "not equal to the object built from the equivalent vector %r" % (seed,)
    if hash(obj) != hash(so):
        return "hash differs from the object built from the equivalent vector %r" % (seed,)
    if alt_entries(fam, s):
        # the same spelling through the library's other entry points
        for e in observe.ENTRIES:
            observe.ENTRY = e
            try:
                try:
                    o2 = observe.construct(fam, s)
                    got = json.loads(json.dumps(observe.observation(fam, o2)))
                except Exception as e2:  # noqa
                    return "raised %s: %s%s" % (type(e2).__name__, e2, observe.via())
                for k in sorted(want):
                    if got.get(k) != want[k]:
                        return "%s is %r, but %r for the equivalent vector %r%s" % (
                            k, got.get(k), want[k], seed, observe.via())
                if not (o2 == so) or hash(o2) != hash(so):
                    return "not equal to / hashing like the object built from the equivalent vector %r%s" % (
                        seed, observe.via())
            finally:
                observe.ENTRY = "direct"
        ALT[0] += 1
    return None


ALT = [0]


def alt_entries(fam, s):
    """Spellings that also go through from_rh_vector, parse_cvss_from_text and hash-then-read:
    every spelling that writes out all metrics or all but one, and every eighth of the others."""
    nfields = len(s[len(T.PREFIX[fam]):].split("/"))
    return nfields >= len(T.METRICS[fam]) - 1 or zlib.crc32(s.encode("utf-8")) % 8 == 0


def judge(acc, s):
    if acc is None:
        return sweep.new_acc()
    acc["n"] += 1
    acc["calls"] += 10
    acc["cmp"] += 1
    why = judge_string(s)
    if why:
        fam = fam_of(s)
        key = T.model_key(fam, T.parse(fam, s)[1])
        sweep.bad(acc, {"what": "%s(%r): %s" % (T.CLASSNAME[fam], s, why), "kind": "respell",
                        "input": s, "seed": _SEEDOBS[key][0], "signature": {"kind": "respell"}})
    else:
        acc["nontrivial"] += 1
        if not acc["samples"]:
            fam = fam_of(s)
            key = T.model_key(fam, T.parse(fam, s)[1])
            acc["samples"].append({"seed": _SEEDOBS[key][0], "respelling": s})
    return acc


def _direct_task(t):
    """Explicit list of (seed, variants generator spec)."""
    kind, fam, seed, lo, hi = t
    acc = sweep.new_acc()
    P = T.PREFIX[fam]
    f = seed[len(P):].split("/")
    if kind == "perm":
        nm = len(T.MANDATORY[fam])
        head, tail = f[:nm], f[nm:]
        gen = (P + "/".join(list(p) + tail)
               for p in itertools.islice(itertools.permutations(head), lo, hi))
    else:  # "nd": subsets lo..hi (bit masks) of absent optional metrics spelled explicitly
        present = set(x.split(":")[0] for x in f)
        absent = [m for m in T.OPTIONAL[fam] if m not in present]
        nd = T.ND[fam]

        def gen_nd():
            for mask in range(lo, hi):
                extra = ["%s:%s" % (m, nd) for b, m in enumerate(absent) if mask >> b & 1]
                # interleave: explicit ND fields go in front of, between and behind the seed's fields
                k = mask % (len(f) + 1)
                yield P + "/".join(f[:k] + extra + f[k:])
        gen = gen_nd()
    want = None
    for s in gen:
        acc["n"] += 1
        acc["calls"] += 10
        acc["cmp"] += 1
        why = compare(fam, seed, s, _SEEDOBS[T.model_key(fam, T.parse(fam, seed)[1])][1])
        if why:
            sweep.bad(acc, {"what": "%s(%r): %s" % (T.CLASSNAME[fam], s, why), "kind": "respell",
                            "input": s, "seed": seed, "signature": {"kind": "respell"}})
        else:
            acc["nontrivial"] += 1
    return acc


def layout_cases(fam):
    """(seed, respelling) pairs: every block layout (tables.block_layouts, plain and with every block
    reversed) of three assignments that define every metric of the version, and of the same with
    all but two optional metrics per block dropped."""
    out = []
    for pick in (-1, 0, 1):
        full = T.full_assignment(fam, pick)
        thin = OrderedDict((m, v) for m, v in full.items()
                           if m in T.MANDATORY[fam] or any(m in b[:1] + b[-1:] for b in T.BLOCKS[fam]))
        for asg in (full, thin):
            seed = T.spell(fam, asg)
            for rev in (False, True):
                for order in T.block_layouts(fam, asg, rev):
                    s = T.spell(fam, asg, order)
                    if s != seed:
                        out.append((seed, s))
    return out


def _layout_task(t):
    fam, lo, hi = t
    acc = sweep.new_acc()
    for seed, s in layout_cases(fam)[lo:hi]:
        acc["n"] += 1
        acc["calls"] += 10
        acc["cmp"] += 1
        why = compare(fam, seed, s)
        if why:
            sweep.bad(acc, {"what": "%s(%r): %s" % (T.CLASSNAME[fam], s, why), "kind": "respell",
                            "input": s, "seed": seed, "signature": {"kind": "respell"}})
        else:
            acc["nontrivial"] += 1
    return acc


def prepare(tier, res=None):
    """Seeds and their observations; the observations are computed in a fork so that the parent
    process (and hence every task forked from it) stays pristine."""
    nseeds = 48 if tier == "thorough" else 40
    cand = []
    special = {
        "2": ["AV:N/AC:L/Au:N/C:C/I:C/A:C", "AV:L/AC:L/Au:N/C:C/I:C/A:C/TD:H", "AV:L/AC:H/Au:M/C:N/I:N/A:N/E:U"],
        "3.0": ["AV:N/AC:L/PR:N/UI:N/S:C/C:H/I:H/A:H", "AV:L/AC:L/PR:L/UI:R/S:C/C:H/I:H/A:L/E:P",
                "AV:N/AC:L/PR:L/UI:N/S:U/C:H/I:H/A:H/MS:C", "AV:P/AC:H/PR:H/UI:R/S:U/C:N/I:N/A:N"],
        "4.0": ["AV:N/AC:L/AT:N/PR:N/UI:N/VC:H/VI:H/VA:H/SC:H/SI:H/SA:H",
                "AV:N/AC:L/AT:N/PR:N/UI:N/VC:N/VI:N/VA:N/SC:N/SI:N/SA:N/MSI:S",
                "AV:L/AC:H/AT:P/PR:H/UI:A/VC:L/VI:L/VA:L/SC:L/SI:L/SA:L/MAV:N/MVC:H/E:U"],
    }
    special["3.1"] = special["3.0"]
    for fam in T.FAMILIES:
        for body in special[fam]:
            asg = dict(f.split(":") for f in body.split("/"))
            cand.append((T.model_key(fam, asg), T.PREFIX[fam] + body, fam))
        for s, asg in observe.covering_seeds(fam, nseeds) + observe.count_seeds(fam):
            key = T.model_key(fam, asg)
            if key not in [c[0] for c in cand]:
                cand.append((key, s, fam))

    def observe_all():
        out = []
        for key, s, fam in cand:
            try:
                out.append(["ok", observe.observation(fam, observe.cls_of(fam)(s))])
            except Exception as e:  # noqa
                out.append(["exc", "%s: %s" % (type(e).__name__, e)])
        return out

    seeds = []
    for (key, s, fam), (kind, obs) in zip(cand, core.in_fork(observe_all)):
        if kind != "ok":
            if res is not None:
                res.add_violation({"what": "%s(%r) raised %s" % (T.CLASSNAME[fam], s, obs),
                                   "kind": "respell", "input": s, "seed": s,
                                   "signature": {"kind": "respell"}})
            continue
        _SEEDOBS[key] = (s, obs, fam)
        seeds.append(s)
    return seeds


def _base_task(t):
    """Every base assignment of a family: the base-only vector against (a) the same fields reversed,
    (b) every optional metric appended as explicit Not Defined, (c) both."""
    fam, lo, hi = t
    from .. import spaces
    if fam == "2":
        bases = spaces.v2_base_all()
    elif fam == "4.0":
        bases = [(f, d) for f, d in spaces.parts(T.V4_BASE, T.V4)][::37]
    else:
        bases = spaces.v3_base_all()
    acc = sweep.new_acc()
    nd = T.ND[fam]
    P = T.PREFIX[fam]
    tail = "/".join("%s:%s" % (m, nd) for m in T.OPTIONAL[fam])
    for frag, d in bases[lo:hi]:
        seed = P + frag
        f = frag.split("/")
        variants = [P + "/".join(f[::-1]), seed + "/" + tail, P + tail + "/" + "/".join(f[::-1])]
        for s in variants:
            acc["n"] += 1
            acc["calls"] += 10
            acc["cmp"] += 1
            why = compare(fam, seed, s)
            if why:
                sweep.bad(acc, {"what": "%s(%r): %s" % (T.CLASSNAME[fam], s, why), "kind": "respell",
                                "input": s, "seed": seed, "signature": {"kind": "respell"}})
            else:
                acc["nontrivial"] += 1
    return acc


def run(ctx, res):
    seeds = prepare(ctx.tier, res)
    accs, st = rewrite.explore(ctx, seeds, neighbours, judge, depth=1, tag="depth1")
    ctx.log("rewrite graph depth 1: %d nodes %d edges" % (st["nodes"], st["edges"]))
    stats = {"depth1": st}
    if ctx.thorough:
        deep = [s for s in seeds if len(s.split("/")) <= 12][:4] + \
            [s for s in seeds if fam_of(s) == "4.0"][3:4]
        accs2, st2 = rewrite.explore(ctx, deep, neighbours, judge, depth=2, parts=256, tag="depth2")
        ctx.log("rewrite graph depth 2: %d nodes %d edges" % (st2["nodes"], st2["edges"]))
        stats["depth2"] = st2
        accs += accs2
        st["edges"] += st2["edges"]
    # complete groups
    tasks = []
    v2seeds = [s for s in seeds if fam_of(s) == "2"]
    v3seeds = [s for s in seeds if fam_of(s) in ("3.0", "3.1")]
    v4seeds = [s for s in seeds if fam_of(s) == "4.0"]

    def n_absent(fam, c):
        return len([m for m in T.OPTIONAL[fam] if m not in T.parse(fam, c)[1]])

    def canon_first(s):
        """re-spell the seed with its mandatory fields first (so permutations() can range over them)"""
        fam = fam_of(s)
        got = T.parse(fam, s)[1]
        order = T.MANDATORY[fam] + [m for m in got if m not in T.MANDATORY[fam]]
        return fam, T.spell(fam, got, order)

    for s in v2seeds[:27 if ctx.thorough else 8]:
        fam, c = canon_first(s)
        tasks.append(("perm", fam, c, 0, 720))
    for s in v3seeds[:4 if ctx.thorough else 2]:
        fam, c = canon_first(s)
        for lo in range(0, 40320, 2520):
            tasks.append(("perm", fam, c, lo, lo + 2520))
    for s in v2seeds[:6]:
        fam, c = canon_first(s)
        n_abs = n_absent(fam, c)
        tasks.append(("nd", fam, c, 0, 1 << n_abs))
    for s in v3seeds[:4 if ctx.thorough else 2]:
        fam, c = canon_first(s)
        n_abs = n_absent(fam, c)
        for lo, hi in core.split_range(1 << n_abs, 16):
            tasks.append(("nd", fam, c, lo, hi))
    # v4: minimal-ish seed (few optional metrics present) so that many can be spelled X
    v4min = sorted(v4seeds, key=lambda s: len(s.split("/")))[0]
    fam, c = canon_first(v4min)
    n_abs = n_absent(fam, c)
    if ctx.thorough:
        for lo, hi in core.split_range(1 << n_abs, 256):
            tasks.append(("nd", fam, c, lo, hi))
        nd_v4 = 1 << n_abs
    else:
        masks = set([0, (1 << n_abs) - 1])
        for r in (1, 2):
            for comb in itertools.combinations(range(n_abs), r):
                mk = sum(1 << b for b in comb)
                masks.add(mk)
                masks.add(((1 << n_abs) - 1) ^ mk)
        for mk in sorted(masks):
            tasks.append(("nd", fam, c, mk, mk + 1))
        nd_v4 = len(masks)
    accs += core.task_map(_direct_task, ctx.rot(tasks))
    btasks = []
    for fam, n in (("2", 729), ("3.0", 2592), ("3.1", 2592), ("4.0", 2838)):
        for lo, hi in core.split_range(n, 12):
            btasks.append((fam, lo, hi))
    accs += core.task_map(_base_task, btasks)
    ltasks = []
    for fam in T.FAMILIES:
        n = len(layout_cases(fam))
        for lo, hi in core.split_range(n, 4 if fam != "4.0" else 12):
            ltasks.append((fam, lo, hi))
    laccs = core.task_map(_layout_task, ltasks)
    accs += laccs
    tot = sweep.merge(accs)
    cov = res.coverage
    cov["states"] = tot["n"]
    cov["transitions"] = st["edges"] + sum(t[4] - t[3] for t in tasks)
    cov["traces_validated_against_impl"] = tot["cmp"]
    cov["evaluations"] = tot["n"]
    cov["distinct_nontrivial"] = tot["nontrivial"]
    cov["graph"] = stats
    cov["seeds"] = len(seeds)
    cov["complete_groups"] = {"v2_base_orders_720_x_seeds": len([t for t in tasks if t[0] == "perm" and t[1] == "2"]),
                              "v3_base_orders_40320_x_seeds": len([t for t in tasks if t[0] == "perm" and t[1] != "2"]) // 16,
                              "v4_explicit_X_subsets": nd_v4}
    cov["block_layouts"] = sum(a["n"] for a in laccs)
    cov["rule"] = ("states = distinct re-spellings (dedup on the string) of value-covering seed "
                   "vectors; transitions = rewrite edges; each state's observation tuple (scores, "
                   "severities, cleaned vector with/without prefix, RH vector, sub-vectors, ==, "
                   "hash, v4 severity) must equal its seed's; all states are non-trivial (each is "
                   "a distinct spelling different from or equal to its seed)")
    cov["exhaustive"] = False
    cov["bound"] = ("permutation distance %d from %d seeds; all 720 orders of the v2 base fields, all "
                    "40,320 orders of the v3 base fields; all subsets of absent optional metrics "
                    "written as ND/X for v2 (2^k) and v3 (2^k), v4: %s; every permutation of the metric blocks "
                    "(24 / 120 orders, plain and block-reversed) of six all-metrics assignments per family" % (
                        2 if ctx.thorough else 1, len(seeds),
                        "all 2^%d" % n_abs if ctx.thorough else "subsets of size <=2 and their complements"))
    cov["samples"] = ctx.rot(tot["samples"])[:6]
    for c in tot["bad"]:
        res.add_violation(c)
    cov["violating_cases_total"] = tot["nbad"]


def replay(case):
    s, seed = case["input"], case["seed"]
    fam = fam_of(s)
    why = compare(fam, seed, s)
    return bool(why), why or "same observations as %r" % seed


def replay_task(case):
    seeds = prepare(case.get("tier") or "quick")
    t = case["task"]
    if isinstance(t, dict):
        return core.replay_func_task(case)
    tag, level, chunk, parts = t
    from .c04 import _Ctx
    if tag == "depth1":
        accs, _ = rewrite.explore(_Ctx(), seeds, neighbours, judge, 1, parts, tag, (level, chunk), case["input"])
    else:
        deep = [s for s in seeds if len(s.split("/")) <= 12][:4] + [s for s in seeds if fam_of(s) == "4.0"][3:4]
        accs, _ = rewrite.explore(_Ctx(), deep, neighbours, judge, 2, parts, tag, (level, chunk), case["input"])
    for a in accs:
        for c in a.get("bad", []):
            if c.get("input") == case["input"]:
                return True, c["what"]
    return False, "the chunk no longer fails on %r" % (case["input"],)
