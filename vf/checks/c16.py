"""
C16 - the interactive builder returns exactly the answered, valid vector.
E3 over answer scripts, deviation-bounded: the default script answers every question with the
metric's first legal value; a deviation replaces one question's answers by an entry of a finite
menu (every legal value in four letter cases, empty line, invalid-then-valid, blank-padded,
end of input ...). All scripts with <= d deviations are run through the real ask_interactively
(real input() path, reactive stdin keyed by metric) and compared with the dialogue model
(trace inclusion where the statement is silent: blank-padded answers).
"""

import itertools

from .. import core, dialogue, observe, sweep
from ..ref import tables as T

INVALID = ["Q", "NN", "N/A", "AV:N", "?", "0", "-", "None", "é", "N N"]


def menu(fam, m):
    """Deviation menu for metric m: list of answer lists."""
    legal = T.METRICS[fam][m]
    nd = T.ND[fam]
    first = legal[0]
    out = []
    seen = set()

    def add(ans):
        k = tuple(ans)
        if k not in seen:
            seen.add(k)
            out.append(list(ans))

    for v in legal:
        for form in (v, v.lower(), v.upper(), v.title()):
            if [form] != [first]:
                add([form])
    add([""])
    add(["", first])
    other_nd = "X" if fam == "2" else "ND"
    foreign = [x for x in ("POC", "Clear", "LM", "S", "Y") if x.lower() not in [l.lower() for l in legal]]
    # values the same-named metric has in ANOTHER version only (e.g. UI:R in a v4 session)
    others = []
    for f2 in T.FAMILIES:
        if f2 != fam and m in T.METRICS[f2]:
            for v in T.METRICS[f2][m]:
                if v.lower() not in [l.lower() for l in legal] and v not in others:
                    others.append(v)
    for bad in INVALID + [other_nd] + foreign[:2] + others:
        if bad.lower() not in [l.lower() for l in legal]:
            add([bad, legal[-1]])
    # every token that is legal for SOME metric of this version but not for this one, in one go
    # (e.g. S for MSC, which is legal for MSI/MSA only), then a legal value
    union = []
    for m2, vals in T.METRICS[fam].items():
        for v in vals:
            if v.lower() not in [l.lower() for l in legal] and v not in union:
                union.append(v)
    if union:
        add(union + [legal[-1]])
        add([u.lower() for u in union[::-1]] + [first])
    add([])                                   # end of input at this question
    add(["Q"])                                # invalid, then end of input
    add([" " + legal[-1] + " "])              # blank-padded (admitted: accept or re-ask)
    add([" " + legal[-1] + " ", legal[-1]])
    add([" ", first])                         # blank-only
    add(["\t", first])
    add(["Q", "?", "", legal[-1]] if nd not in legal else ["Q", "?", legal[-1]])
    add([m + ":" + first, first])
    for v in (legal[0], legal[-1]):
        add(lookalikes(v) + [first])
    return out


def lookalikes(v):
    """Characters that are not the letters of v but that a normalising (NFKC) or case-mapping
    comparison turns into them: full-width forms, circled and mathematical letters, superscripts,
    long s / dotless i / Kelvin sign. None of them is a legal answer (the last three are admitted
    either way by the model: Unicode upper-casing maps them onto ASCII letters)."""
    out = []
    fw = "".join(chr(ord(c) + 0xFEE0) if "!" <= c <= "~" else c for c in v)
    out += [fw, "".join(chr(ord(c) + 0xFEE0) if "!" <= c <= "~" else c for c in v.lower())]
    if len(v) == 1 and v.isalpha():
        i = ord(v.upper()) - 65
        out += [chr(0x24B6 + i), chr(0x1D400 + i), chr(0x1F130 + i)]
        sup = {"N": "\u207f", "L": "\u02e1", "H": "\u02b0", "P": "\u1d56", "A": "\u1d2c", "X": "\u02e3"}
        if v.upper() in sup:
            out.append(sup[v.upper()])
    for a, b in (("S", "\u017f"), ("I", "\u0131"), ("K", "\u212a"), ("I", "\u0130")):
        if a in v.upper():
            out.append(v.upper().replace(a, b))
    return out


def default_for(fam):
    return lambda m: [T.METRICS[fam][m][0]]


ALT_VERSION = {"2": 2.0, "3.0": 3, "4.0": 4}     # the same version numbers, other numeric spelling


def judge(fam, allm, nc, script, version_arg=None):
    dflt = default_for(fam)
    run = dialogue.run_builder(fam, allm, nc, script, dflt, version_arg=version_arg)
    why = dialogue.judge_run(fam, allm, script, run, dflt)
    if why:
        return why, run
    if "result" in run:
        try:
            observe.cls_of(fam)(run["result"])
        except Exception as e:  # noqa
            return "the result %r is rejected by %s: %s" % (run["result"], T.CLASSNAME[fam], e), run
    return None, run


def warm_up():
    """One complete all-metrics session of every version first: whatever a session leaves behind
    (cached prompts, value lists) is then in place when the task's own dialogues run."""
    for f in T.FAMILIES:
        dialogue.run_builder(f, True, True, {}, default_for(f))


def brief(script):
    """Answer script with runs of equal answers and over-long answers abbreviated."""
    out = []
    for m, answers in script.items():
        runs = []
        for a in answers:
            a = a if len(a) <= 40 else "%s...(%d characters)" % (a[:12], len(a))
            if runs and runs[-1][0] == a:
                runs[-1][1] += 1
            else:
                runs.append([a, 1])
        out.append("%s: [%s]" % (m, ", ".join(repr(a) if n == 1 else "%r x%d" % (a, n) for a, n in runs)))
    return "{%s}" % "; ".join(out)


def _task(t):
    fam, allm, nc, d, lo, hi = t
    scripts = list(scripts_upto(fam, allm, d))[lo:hi]
    acc = sweep.new_acc()
    warm_up()
    for si, script in enumerate(scripts):
        acc["n"] += 1
        va = ALT_VERSION.get(fam) if si % 5 == 4 else None    # every fifth dialogue: 2.0 / 3 / 4
        why, run = judge(fam, allm, nc, script, va)
        acc["calls"] += len(run["asked"])
        acc["cmp"] += 1
        if why:
            sweep.bad(acc, {"what": "ask_interactively(%s, all_metrics=%s, no_colors=%s) with answers %s: %s" % (
                fam, allm, nc, brief(script), why), "kind": "dialogue", "family": fam,
                "input": {"all": allm, "no_colors": nc, "script": script, "version_arg": va},
                "signature": {"kind": "dialogue", "family": fam}})
            continue
        acc["outcomes"].add(("eof" if "eof" in run else "result", len(run["asked"])))
        if script:
            acc["nontrivial"] += 1
        if not acc["samples"] and script and "result" in run:
            acc["samples"].append({"version": fam, "all_metrics": allm, "answers_deviating": script,
                                   "result": run["result"]})
    return acc


def _stream_task(t):
    """The builder on a REAL text stream (a pipe wrapped the way sys.stdin is: FileIO, BufferedReader,
    TextIOWrapper) from which the calling program has already read a line of its own: every answer
    is in the pipe before the first question is asked. Question order is learnt from a reactive run
    (and judged there); here only the result counts."""
    import io
    import os
    import sys
    import cvss.interactive as I
    fam, allm, cut = t
    acc = sweep.new_acc()
    acc["n"] += 1
    dflt = default_for(fam)
    order = []
    for m in dialogue.run_builder(fam, allm, True, {}, dflt)["asked"]:
        if m is not None and m not in order:
            order.append(m)
    answers = [T.METRICS[fam][m][-1] for m in order]
    want = T.PREFIX[fam] + "/".join("%s:%s" % (m, a) for m, a in zip(order, answers))
    if cut is not None:
        answers = answers[:cut]
    r, w = os.pipe()
    os.write(w, ("a line the calling program reads itself\n" + "".join(a + "\n" for a in answers)).encode("utf-8"))
    os.close(w)
    stream = io.TextIOWrapper(io.BufferedReader(io.FileIO(r, "r")), encoding="utf-8")
    out = io.StringIO()
    old = sys.stdin, sys.stdout
    sys.stdin, sys.stdout = stream, out
    got = None
    try:
        try:
            sys.stdin.readline()
            got = ("result", I.ask_interactively(dialogue.VERSION_ARG[fam], allm, True))
        except EOFError:
            got = ("eof",)
        except BaseException as e:  # noqa
            got = ("exc", "%s: %s" % (type(e).__name__, e))
    finally:
        sys.stdin, sys.stdout = old
        stream.close()
    expect = ("result", want) if cut is None else ("eof",)
    acc["calls"] += len(answers)
    acc["cmp"] += 1
    if got != expect:
        sweep.bad(acc, {"what": "ask_interactively(%s, all_metrics=%s) reading a pipe that holds %s, after the caller "
                        "read a line of its own from the same stream: %r, expected %r" % (
                            fam, allm, "every answer" if cut is None else "the first %d answers" % cut, got, expect),
                        "kind": "stream", "family": fam, "input": {"all": allm, "cut": cut},
                        "signature": {"kind": "stream", "family": fam}})
    else:
        acc["nontrivial"] += 1
    return acc


def scripts_upto(fam, allm, d):
    ms = dialogue.expected_metrics(fam, allm)
    menus = dict((m, menu(fam, m)) for m in ms)
    yield {}
    # scale: 1,500 refused answers at one question before a legal one (a re-ask implemented by
    # recursion, a bounded retry counter, a growing buffer ...), and the same at every question
    for m in ms:
        yield {m: ["?"] * 1500 + [T.METRICS[fam][m][-1]]}
    yield dict((m, ["", "?", "-"] * 40 + [T.METRICS[fam][m][0]]) for m in ms if T.ND[fam] not in T.METRICS[fam][m])
    for m in ms[:2] + ms[-2:]:
        last, first_v = T.METRICS[fam][m][-1], T.METRICS[fam][m][0]
        # an answer line longer than any buffer: the whole line is ONE answer
        yield {m: ["Q" * 1024 + last, first_v]}
        yield {m: [" " * 5000 + last.lower() + " " * 5000, first_v]}
        yield {m: [last + " " * 1100 + "zzz", first_v]}
        yield {m: [" " * 1100 + "zzz" + last, first_v]}
    # 1,500 empty answers at a question that has no Not Defined value
    for m in [m for m in ms if T.ND[fam] not in T.METRICS[fam][m]][:1]:
        yield {m: [""] * 1500 + [T.METRICS[fam][m][-1]]}
    for r in range(1, d + 1):
        for combo in itertools.combinations(ms, r):
            for choice in itertools.product(*[menus[m] for m in combo]):
                yield dict(zip(combo, choice))


def run(ctx, res):
    tasks = []
    plan = []
    for fam in T.FAMILIES:
        for allm in (False, True):
            if ctx.thorough:
                d = 3 if (fam == "2" and not allm) else 2
            else:
                d = 2 if (not allm) else 1
            plan.append((fam, allm, d))
    space = {}
    for fam, allm, d in plan:
        sc = list(scripts_upto(fam, allm, d))
        space["%s.%s" % (fam, "all" if allm else "mandatory")] = {"deviations": d, "scripts": len(sc)}
        for i in range(0, len(sc), 400):
            tasks.append((fam, allm, True, d, i, i + 400))
        # colours on: <=1 deviation
        sc1 = list(scripts_upto(fam, allm, 1))
        for i in range(0, len(sc1), 400):
            tasks.append((fam, allm, False, 1, i, i + 400))
    accs = core.task_map(_task, ctx.rot(tasks))
    accs += core.task_map(_stream_task, [(fam, allm, cut) for fam in T.FAMILIES for allm in (False, True)
                                         for cut in (None, 0, 2)])
    tot = sweep.merge(accs)
    cov = res.coverage
    cov["states"] = tot["n"]
    cov["transitions"] = tot["calls"]
    cov["traces_validated_against_impl"] = tot["cmp"]
    cov["evaluations"] = tot["n"]
    cov["distinct_nontrivial"] = tot["nontrivial"]
    cov["distinct_outcomes"] = len(tot["outcomes"])
    cov["space"] = space
    cov["rule"] = ("states = complete dialogues (one per answer script); transitions = questions "
                   "answered; each dialogue's question sequence, answers consumed per metric, "
                   "result / end-of-input and acceptance of the result by the class are compared "
                   "with the dialogue model; non-trivial = scripts with at least one deviation")
    cov["exhaustive"] = False
    cov["bound"] = "all answer scripts with <= d deviations from the default script (d per configuration in 'space')"
    cov["samples"] = ctx.rot(tot["samples"])[:6]
    for c in tot["bad"]:
        res.add_violation(c)
    cov["violating_cases_total"] = tot["nbad"]
    res.assumptions += ["prompts are attributed to metrics by keywords of the specification's metric "
                        "names; question order is not presupposed",
                        "blank-padded / blank-only answers: accepting the stripped text and re-asking "
                        "are both admitted"]


def replay(case):
    i = case["input"]
    if case.get("kind") == "stream":
        acc = _stream_task((case["family"], i["all"], i["cut"]))
        return bool(acc["bad"]), acc["bad"][0]["what"] if acc["bad"] else "as answered"
    why, run = judge(case["family"], i["all"], i["no_colors"], i["script"], i.get("version_arg"))
    return bool(why), why or "as the model predicts"


def replay_task(case):
    return core.replay_func_task(case)
