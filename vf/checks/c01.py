"""
C01 - CVSS v3.0/v3.1 scores equal the FIRST specification equations.
E1 product sweep on the real CVSS3 class against vf.ref.score3 (exact rationals, Roundup=ceil).
"""

from .. import core, observe, spaces, sweep
from ..engine import product
from ..ref import official, score3, tables as T


def model(fam, asg):
    r = score3.scores(0 if fam == "3.0" else 1, asg)
    return tuple([x / 10.0] for x in r)


def judge(fam, vec, asg):
    import cvss

    exp = score3.scores(0 if fam == "3.0" else 1, asg)
    try:
        got = observe.construct(fam, vec).scores()
    except Exception as e:  # noqa
        return "constructor/scores() raised %s: %s" % (type(e).__name__, e), None, exp
    if not (isinstance(got, tuple) and len(got) == 3):
        return "scores() is not a 3-tuple: %r" % (got,), got, exp
    if "-" in repr(got):
        return "a score is negative (or negative zero): %r" % (got,), got, exp
    for slot, name in enumerate(("base", "temporal", "environmental")):
        if got[slot] is None or got[slot] != exp[slot] / 10.0:
            return "%s score %r, specification equations give %r" % (
                name, got[slot], exp[slot] / 10.0), got, exp
    return None, got, exp


def visit(acc, blk, vec, asg, idx):
    acc["n"] += 1
    acc["calls"] += 2
    why, got, exp = judge(blk.family, vec, asg)
    acc["cmp"] += 3
    if why:
        sweep.bad(acc, {"what": "CVSS3(%r): %s" % (vec, why), "kind": "score3", "input": vec,
                        "signature": {"kind": "score3"}})
        return
    if got[0] != 0.0:
        acc["nontrivial"] += 1
    acc["outcomes"].add(got)
    if not acc["samples"]:
        acc["samples"].append({"vector": vec, "scores": got})


def blocks(tier):
    return spaces.v3_blocks(tier, full_inherit=True) + [spaces.interaction_block("3.0", tier, twin="3.1"),
                                     spaces.layout_block("3.0", twin="3.1")]


def run(ctx, res):
    n_off = official.validate("3", model)
    ctx.log("reference model reproduces %d official v3 vectors" % n_off)
    blocks_ = blocks(ctx.tier)
    tot = sweep.merge(product.run(ctx, blocks_, visit, sweep.new_acc))
    sweep.fill(res, ctx, tot, blocks_,
               "every point of the listed product blocks over the v3 metric tables (both minor "
               "versions) is constructed with the real CVSS3 class and scores() compared with the "
               "exact-rational model; 'inherit' = modified metrics absent so base values are "
               "inherited, 'override' = all eight modified metrics explicit over a base vector "
               "that differs in every metric; points distinct by construction; non-trivial = base "
               "score is not 0.0", exhaustive=True)
    res.coverage["official_vectors_reproduced_by_model"] = n_off
    res.coverage["interaction_rows"] = spaces.interaction_evidence(["3.0"], ctx.tier)
    res.coverage["bound"] = (
        "the property's full quotient: 2 x 2,592 x 100 temporal spellings; 2 x 2,592 x 48 x 27 "
        "inherited and the same 6.7M effective assignments under full override" if ctx.thorough else
        "2 x 2,592 x 100 temporal spellings; 2 x 2,592 x 27 requirement assignments x all 48 "
        "effective temporal assignments (inherit: the complete base x requirement x temporal quotient) "
        "/ 4 temporal skeleton assignments (override)")
    res.assumptions += [
        "float(tenths/10) equals float(Decimal) for one-decimal values (both correctly rounded)"]


def replay(case):
    vec = case["input"]
    fam = T.family_of(3, vec)
    verdict, got = T.parse(fam, vec)
    if verdict != "ACCEPT":
        raise core.HarnessError("replay input is not a valid v3 vector")
    why, obs, exp = judge(fam, vec, dict(got))
    return bool(why), why or "scores %r as the specification's equations" % (obs,)


def replay_task(case):
    return product.replay_task(blocks(case.get("tier") or "quick"), visit, sweep.new_acc, case)
