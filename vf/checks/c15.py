"""
C15 - temporal_vector()/environmental_vector() are faithful and score-preserving (v2, v3).
E1 product sweep over temporal x environmental *spellings* (absent / Not Defined / each value per
metric); oracle = the model's own parse of the input + re-assembly differential.
"""

import itertools

from .. import core, observe, spaces, sweep
from ..engine import product
from ..engine.product import Block, parts
from ..ref import tables as T


def expected(fam, asg):
    nd = T.ND[fam]
    if fam == "2":
        tv = "/".join("%s:%s" % (m, asg.get(m, nd)) for m in T.V2_TEMPORAL)
        ev = "/".join("%s:%s" % (m, asg.get(m, nd)) for m in T.V2_ENV)
        return tv, ev
    tv = "/".join("%s:%s" % (m, asg.get(m, nd)) for m in T.V3_TEMPORAL)
    out = []
    for m in T.V3_ENV:
        v = asg.get(m, nd)
        if v == nd and m in T.V3_MODIFIED:
            v = asg[m[1:]]
        out.append("%s:%s" % (m, v))
    return tv, "/".join(out)


def judge(fam, vec, asg):
    import cvss

    cls = getattr(cvss, T.CLASSNAME[fam])
    try:
        obj = observe.construct(fam, vec)
        tv, ev = obj.temporal_vector(), obj.environmental_vector()
        sc = obj.scores()
    except Exception as e:  # noqa
        return "raised %s: %s" % (type(e).__name__, e), None
    etv, eev = expected(fam, asg)
    if tv != etv:
        return "temporal_vector() %r, expected %r" % (tv, etv), None
    if ev != eev:
        return "environmental_vector() %r, expected %r" % (ev, eev), None
    base = "/".join("%s:%s" % (m, asg[m]) for m in T.MANDATORY[fam])
    re_vec = T.PREFIX[fam] + base + "/" + tv + "/" + ev
    try:
        sc2 = cls(re_vec).scores()
    except Exception as e:  # noqa
        return "re-assembled vector %r rejected: %s: %s" % (re_vec, type(e).__name__, e), None
    if sc2 != sc:
        return "re-assembled vector %r scores %r, original %r" % (re_vec, sc2, sc), None
    return None, (tv, ev, sc)


def visit(acc, blk, vec, asg, idx):
    if blk.meta.get("reverse"):        # the same fields written in reverse order
        P = T.PREFIX[blk.family]
        vec = P + "/".join(reversed(vec[len(P):].split("/")))
    elif blk.meta.get("order"):
        P = T.PREFIX[blk.family]
        f = vec[len(P):].split("/")
        if blk.meta["order"] == "env_first":     # base, environmental, temporal
            tnames = set(T.V2_TEMPORAL if blk.family == "2" else T.V3_TEMPORAL)
            mand = set(T.MANDATORY[blk.family])
            key = lambda x: 0 if x.split(":")[0] in mand else (2 if x.split(":")[0] in tnames else 1)
            f = sorted(f, key=key)               # stable: order inside each group is kept
        elif blk.meta["order"] == "rotate":      # second half of the fields first
            f = f[len(f) // 2:] + f[:len(f) // 2]
        elif blk.meta["order"] == "interleave":  # optional fields between the base fields
            f = f[1::2] + f[0::2]
        vec = P + "/".join(f)
    acc["n"] += 1
    acc["calls"] += 6
    why, obs = judge(blk.family, vec, asg)
    acc["cmp"] += 3
    if why:
        sweep.bad(acc, {"what": "%s(%r): %s" % (T.CLASSNAME[blk.family], vec, why), "kind": "subvec",
                        "input": vec, "family": blk.family, "signature": {"kind": "subvec"}})
        return
    tv, ev, sc = obs
    if any(m in asg for m in T.OPTIONAL[blk.family]):
        acc["nontrivial"] += 1
    acc["outcomes"].add(hash((tv, ev)) & 0xFFFF)
    if not acc["samples"] or (idx % 50021 == 0 and len(acc["samples"]) < 3):
        acc["samples"].append({"vector": vec, "temporal_vector": tv, "environmental_vector": ev})


def v3_env_departures(k):
    """All environmental spellings in which at most k metrics depart from 'absent'."""
    choices = [(m, v) for m in T.V3_ENV for v in T.V3[m]]
    out = [("", {})]
    for r in range(1, k + 1):
        for combo in itertools.combinations(choices, r):
            ms = [m for m, _ in combo]
            if len(set(ms)) != r:
                continue
            d = dict(combo)
            out.append(("/".join("%s:%s" % (m, d[m]) for m in T.V3_ENV if m in d), d))
    return out


def v3_env_two_values():
    dom = dict((m, [T.V3[m][0], T.V3[m][-1]]) for m in T.V3_ENV)  # X and the last value
    return parts(T.V3_ENV, dom)


def few(tsp, fam):
    """Three temporal spellings for blocks whose subject is the other group: absent, every metric
    explicitly Not Defined, every metric at its last value."""
    nd = T.ND[fam]
    names = T.V2_TEMPORAL if fam == "2" else T.V3_TEMPORAL
    all_nd = [p for p in tsp if len(p[1]) == len(names) and all(v == nd for v in p[1].values())]
    mixed = [p for p in tsp if len(p[1]) == len(names) and list(p[1].values())[0] == nd and list(p[1].values())[-1] != nd]
    return [tsp[0], all_nd[0], mixed[len(mixed) // 2], tsp[-1]]


def pick_bases(fam, n):
    allb = spaces.v2_base_all() if fam == "2" else spaces.v3_base_all()
    step = max(1, len(allb) // n)
    while step > 1 and (step % 2 == 0 or step % 3 == 0):   # coprime with the domain sizes 2, 3, 4
        step -= 1
    return allb[step // 2::step][:n]


def blocks(tier):
    thorough = tier == "thorough"
    blocks = []
    tsp2, esp2 = spaces.v2_temporal_spellings(), spaces.v2_env_spellings()
    if thorough:
        blocks.append(Block("v2.t_x_e_spellings", "2", pick_bases("2", 3), tsp2, esp2))
    else:
        blocks.append(Block("v2.t_x_e_spellings", "2", pick_bases("2", 1), spaces.thin(tsp2, 3), esp2))
    blocks.append(Block("v2.all_base_x_t_spellings", "2", spaces.v2_base_all(), tsp2))
    blocks.append(Block("v2.all_base_x_e_spellings", "2",
                        spaces.v2_base_all() if thorough else spaces.thin(spaces.v2_base_all(), 9),
                        spaces.ABSENT, esp2))
    blocks.append(Block("v2.all_base_x_env_partial", "2", spaces.v2_base_all(), few(tsp2, "2"),
                        spaces.v2_env_partial()))
    tsp3 = parts(T.V3_TEMPORAL, dict((m, [None] + T.V3[m]) for m in T.V3_TEMPORAL))
    fam, twin = "3.0", "3.1"
    blocks.append(Block("v3.all_base_x_t_spellings", fam, spaces.v3_base_all(), tsp3, twin=twin))
    if thorough:
        blocks.append(Block("v3.env<=3_departures", fam, pick_bases(fam, 24), few(tsp3, "3.0"),
                            v3_env_departures(3), twin=twin))
        blocks.append(Block("v3.all_base_x_env<=1", fam, spaces.v3_base_all(), spaces.ABSENT,
                            v3_env_departures(1), twin=twin))
    else:
        blocks.append(Block("v3.env<=2_departures", fam, pick_bases(fam, 16), few(tsp3, "3.0"),
                            v3_env_departures(2), twin=twin))
        blocks.append(Block("v3.all_base_x_env<=1", fam, spaces.thin(spaces.v3_base_all(), 4), spaces.ABSENT,
                            v3_env_departures(1), twin=twin))
    blocks.append(Block("v3.env_two_values", fam, pick_bases(fam, 12 if thorough else 4),
                        few(tsp3, "3.0"), v3_env_two_values(), twin=twin))
    # input order must not matter for the sub-vectors either: reversed field order
    blocks.append(Block("v3.reversed.all_base_x_env<=1", fam, spaces.thin(spaces.v3_base_all(), 4 if not thorough else 1),
                        few(tsp3, "3.0"), v3_env_departures(1), twin=twin, meta={"reverse": True}))
    blocks.append(Block("v2.reversed.all_base_x_env_partial", "2", spaces.thin(spaces.v2_base_all(), 3 if not thorough else 1),
                        few(tsp2, "2"), spaces.v2_env_partial(), meta={"reverse": True}))
    # complete spellings (every metric written out among them) in three more field orders
    for order in ("env_first", "rotate", "interleave"):
        blocks.append(Block("v2.%s.t_x_e_spellings" % order, "2", pick_bases("2", 3 if thorough else 1),
                            spaces.thin(tsp2, 1 if thorough else 5), esp2, meta={"order": order}))
        blocks.append(Block("v3.%s.env_two_values" % order, fam, pick_bases(fam, 6 if thorough else 2),
                            few(tsp3, "3.0"), v3_env_two_values(), twin=twin,
                            meta={"order": order}))
    blocks.append(spaces.interaction_block("2", tier))
    blocks.append(spaces.interaction_block("3.0", tier, twin="3.1"))
    if thorough:
        # the complete environmental spelling space (30,000,000) on one base vector, v3.1
        full = dict((m, [None] + T.V3[m]) for m in T.V3_ENV)
        A = [("AV:A/AC:H/PR:L/UI:R/S:C/C:L/I:H/A:N/" + f if f else "AV:A/AC:H/PR:L/UI:R/S:C/C:L/I:H/A:N",
              dict({"AV": "A", "AC": "H", "PR": "L", "UI": "R", "S": "C", "C": "L", "I": "H", "A": "N"}, **d))
             for f, d in parts(["CR", "IR", "AR"], full)]
        B = parts(["MAV", "MAC", "MPR", "MUI"], full)
        C = parts(["MS", "MC", "MI", "MA"], full)
        blocks.append(Block("v3.1.complete_env_spelling_space", "3.1", A, B, C))
    return blocks


def run(ctx, res):
    blocks_ = blocks(ctx.tier)
    tot = sweep.merge(product.run(ctx, blocks_, visit, sweep.new_acc))
    sweep.fill(res, ctx, tot, blocks_,
               "every point of the listed blocks of temporal/environmental *spellings* (each metric "
               "absent, Not Defined or any value) is constructed; both sub-vectors are compared "
               "with the model's own parse and the re-assembled vector must construct and score "
               "identically; non-trivial = at least one optional metric is written", exhaustive=True)
    res.coverage["bound"] = (
        "v2: all 180 x 5,250 spellings on 3 base vectors, each group alone on all 729; v3: all 180 "
        "temporal spellings on all base vectors, <=3 environmental departures on 24 bases, the "
        "complete 30M environmental spelling space on one 3.1 base vector" if ctx.thorough else
        "v2: 60 x 5,250 spellings on one base, each group alone on all/81 bases; v3: all 180 "
        "temporal spellings on all bases, <=2 environmental departures on 16 bases, <=1 on 648")


def replay(case):
    vec, fam = case["input"], case["family"]
    verdict, got = T.parse(fam, vec)
    if verdict != "ACCEPT":
        raise core.HarnessError("replay input is not a valid vector")
    why, obs = judge(fam, vec, dict(got))
    return bool(why), why or "faithful: %r" % (obs,)


def replay_task(case):
    return product.replay_task(blocks(case.get("tier") or "quick"), visit, sweep.new_acc, case)
