"""
C18 - a constructed object is an immutable value with total, pure accessors.
E3: (i) snapshot BFS to fixpoint: from the freshly constructed object every operation is applied
and the canonical state (vars(obj) + constant tables + ambient state) hashed; new hashes extend the
frontier (on a correct tree the search closes with ONE state after |ops| transitions, which covers
all finite sequences provided all state lives in the snapshot); (ii) black-box: ALL operation
sequences up to depth k on one object, every result compared with the same call on a fresh twin.
"""

import copy
import itertools
import json

from .. import core, observe, sweep
from ..engine import opseq
from ..ref import tables as T


def mutate(d):
    """Vandalise a dictionary returned by as_json()."""
    keys = list(d.keys())
    for k in keys:
        d[k] = "tampered"
    d["injected"] = {"x": 1}
    if keys:
        try:
            d.pop(keys[0])
        except Exception:  # noqa
            pass
    if hasattr(d, "move_to_end") and len(keys) > 1:
        d.move_to_end(keys[1])
    if len(keys) > 3:
        d.clear()


def frozen(d):
    return ["map", type(d).__name__, [[k, opseq.canon(v)] for k, v in d.items()]]


def respelled(fam, vec):
    """An equal object spelled differently: fields reversed, explicit Not Defined fields dropped,
    and every absent optional metric written as explicit Not Defined."""
    verdict, got = T.parse(fam, vec)
    nd = T.ND[fam]
    asg = dict((m, v) for m, v in got.items() if v != nd)
    for m in T.OPTIONAL[fam]:
        if m not in got:
            asg[m] = nd
    order = [m for m in T.METRICS[fam] if m in asg][::-1]
    return T.spell(fam, asg, order)


_FOREIGN = {}
_KEPT = []      # (dictionary returned by as_json, its frozen form at the time, which call)


def keep(d, name):
    """A caller may keep what as_json() returned: it must not change when other calls are made
    later - on this object, on an equal one, on any other."""
    if len(_KEPT) < 12000:
        _KEPT.append((d, frozen(d), name))
    return d


def check_kept():
    """why-or-None; forgets the kept dictionaries."""
    why = None
    for d, was, name in _KEPT:
        now = frozen(d)
        if now != was:
            why = "a dictionary returned earlier by %s has changed since: it was %s and is now %s" % (
                name, json.dumps(was)[:200], json.dumps(now)[:200])
            break
    del _KEPT[:]
    return why



def make_ops(fam, vec=None):
    ops = [
        ("scores", lambda o, f: o.scores()),
        ("severities", lambda o, f: o.severities()),
        ("clean_vector", lambda o, f: o.clean_vector()),
        ("rh_vector", lambda o, f: o.rh_vector()),
        ("eq_twin", lambda o, f: (o == f, f == o, o != f)),
        ("hash", lambda o, f: hash(o) == hash(f)),
    ]
    foreign = {"2": "AV:N/AC:L/Au:N/C:P/I:P/A:P", "3.0": "CVSS:3.0/AV:N/AC:L/PR:N/UI:N/S:U/C:H/I:H/A:H",
               "3.1": "CVSS:3.1/AV:N/AC:L/PR:N/UI:N/S:U/C:H/I:H/A:H",
               "4.0": "CVSS:4.0/AV:N/AC:L/AT:N/PR:N/UI:N/VC:H/VI:H/VA:H/SC:N/SI:N/SA:N"}

    def eq_foreign(o, f):
        """== and != with objects of every other version (both operand orders) and other types."""
        out = []
        for f2, v2 in sorted(foreign.items()):
            x = _FOREIGN.get(f2)
            if x is None:
                x = _FOREIGN[f2] = observe.cls_of(f2)(v2)
            out.append([f2, o == x, x == o, o != x, x != o])
        for y in (None, 7.5, "", o.clean_vector(), (1,), object):
            out.append([repr(type(y)), o == y, o != y])
        return out

    ops.append(("eq_other_versions_and_types", eq_foreign))
    if vec is not None:
        other = respelled(fam, vec)
        ops.append(("eq_respelled", lambda o, f: (o == type(o)(other), type(o)(other) == o, o != type(o)(other))))
        ops.append(("in_set_of_respelled", lambda o, f: o in set([type(o)(other)])))
    if fam != "2":
        ops.append(("clean_vector_noprefix", lambda o, f: o.clean_vector(output_prefix=False)))
    if fam != "4.0":
        ops.append(("temporal_vector", lambda o, f: o.temporal_vector()))
        ops.append(("environmental_vector", lambda o, f: o.environmental_vector()))
    else:
        ops.append(("severity_attr", lambda o, f: (o.severity, o.base_score)))
    for s in (False, True):
        for m in (False, True):
            ops.append(("as_json(sort=%s,minimal=%s)" % (s, m),
                        lambda o, f, s=s, m=m: frozen(keep(o.as_json(sort=s, minimal=m),
                                                           "as_json(sort=%s, minimal=%s)" % (s, m)))))

    def json_mutate(o, f, s, m):
        d = o.as_json(sort=s, minimal=m)
        before = frozen(d)
        mutate(d)
        return before

    def elsewhere(o, f):
        """The library's other entry points are used in between (nothing touches the object)."""
        from .. import dialogue
        from cvss.parser import parse_cvss_from_text
        tab = T.METRICS[fam]
        dialogue.run_builder(fam, True, True, {}, lambda m: [tab[m][0]])
        parse_cvss_from_text("x " + o.vector + " y")
        try:
            type(o).from_rh_vector("0.0/" + o.vector)
        except Exception:  # noqa
            pass
        return "done"

    ops.append(("other_entry_points_used_in_between", elsewhere))
    ops.append(("as_json_then_mutate(sort=False)", lambda o, f: json_mutate(o, f, False, False)))

    def json_mutate_all(o, f):
        """Every option combination: all four dictionaries are obtained first and then vandalised (a
        dictionary that is handed out by reference for one combination only shows here)."""
        ds = [o.as_json(sort=s, minimal=m) for s in (False, True) for m in (False, True)]
        before = [frozen(d) for d in ds]
        for d in ds:
            mutate(d)
        return before

    ops.append(("as_json_then_mutate(every option combination)", json_mutate_all))
    return ops


def seeds(n):
    out = []
    special = {
        "2": ["AV:L/AC:H/Au:M/C:N/I:N/A:N", "AV:L/AC:H/Au:M/C:N/I:N/A:N/E:U/TD:N", "AV:N/AC:L/Au:N/C:C/I:C/A:C",
              "AV:N/AC:L/Au:N/C:C/I:C/A:C/E:ND/RL:ND/RC:ND/CDP:ND/TD:ND/CR:ND/IR:ND/AR:ND"],
        "3.0": ["CVSS:3.0/AV:N/AC:L/PR:N/UI:N/S:U/C:N/I:N/A:N", "CVSS:3.0/AV:N/AC:L/PR:L/UI:N/S:C/C:H/I:H/A:H/MS:U/MPR:H"],
        "3.1": ["CVSS:3.1/AV:N/AC:L/PR:N/UI:N/S:U/C:N/I:N/A:N", "CVSS:3.1/AV:N/AC:L/PR:N/UI:N/S:C/C:H/I:H/A:H/MC:N/MI:N/MA:N",
                "CVSS:3.1/AV:N/AC:L/PR:N/UI:N/S:U/C:H/I:H/A:H/E:X/RL:X/RC:X/CR:X/MAV:X"],
        "4.0": ["CVSS:4.0/AV:N/AC:L/AT:N/PR:N/UI:N/VC:N/VI:N/VA:N/SC:N/SI:N/SA:N",
                "CVSS:4.0/AV:N/AC:L/AT:N/PR:N/UI:N/VC:N/VI:N/VA:N/SC:N/SI:N/SA:N/MSI:S",
                "CVSS:4.0/AV:N/AC:L/AT:N/PR:N/UI:N/VC:H/VI:H/VA:H/SC:H/SI:H/SA:H/U:Amber/E:X/MAV:X"],
    }
    for fam in T.FAMILIES:
        for s, asg in observe.covering_seeds(fam, n):
            out.append((fam, s))
        for s in special[fam]:
            out.append((fam, s))
        out += [(fam, s) for s in shape_seeds(fam)]
        out += [(fam, s) for s, _ in observe.count_seeds(fam)[::2]]
    return out


def shape_seeds(fam):
    """One vector per *shape*: each optional group absent / fully defined / fully explicit Not
    Defined, in every combination (the accessors branch on which groups are present)."""
    tab = T.METRICS[fam]
    nd = T.ND[fam]
    base = dict((m, tab[m][1 % len(tab[m])]) for m in T.MANDATORY[fam])
    if fam == "2":
        groups = [T.V2_TEMPORAL, ["CDP", "TD"], ["CR", "IR", "AR"]]
    elif fam == "4.0":
        groups = [T.V4_THREAT, ["CR", "IR", "AR"], T.V4_MODIFIED, T.V4_SUPPLEMENTAL]
    else:
        groups = [T.V3_TEMPORAL, ["CR", "IR", "AR"], T.V3_MODIFIED]
    out = []
    import itertools
    for states in itertools.product(("absent", "defined", "nd"), repeat=len(groups)):
        asg = dict(base)
        for g, st in zip(groups, states):
            for m in g:
                if st == "defined":
                    asg[m] = [v for v in tab[m] if v != nd][-1]
                elif st == "nd":
                    asg[m] = nd
        out.append(T.spell(fam, asg))
    return out


def full_state(o):
    return opseq.digest([opseq.object_snapshot(o), opseq.tables_snapshot(), opseq.ambient_snapshot()])


def bfs_seed(fam, vec, fresh, max_states=40):
    """(i) Snapshot BFS to fixpoint. A state is identified with the history that reaches it; a
    history is replayed on a fresh object. In every state every operation's result must equal the
    fresh-object result. A *benign* internal cache only adds states (reported, not alarmed).
    Returns (states, transitions, capped, violation-or-None)."""
    cls = observe.cls_of(fam)
    ops = make_ops(fam, vec)
    init = full_state(cls(vec))
    seen = {init: ()}
    frontier = [()]
    transitions = 0
    while frontier:
        hist = frontier.pop(0)
        for i, (name, fn) in enumerate(ops):
            o, twin = cls(vec), cls(vec)
            try:
                for j in hist:
                    ops[j][1](o, twin)
                r = opseq.canon(fn(o, twin))
            except Exception as e:  # noqa
                return len(seen), transitions, False, (hist + (i,), "%s raised %s: %s" % (name, type(e).__name__, e))
            transitions += 1
            if r != fresh[i]:
                return len(seen), transitions, False, (
                    hist + (i,), "%s returns %s, but %s on a fresh object" % (
                        name, json.dumps(r)[:160], json.dumps(fresh[i])[:160]))
            st = full_state(o)
            if st not in seen:
                seen[st] = hist + (i,)
                if len(seen) >= max_states:
                    return len(seen), transitions, True, None
                frontier.append(hist + (i,))
    return len(seen), transitions, False, None


def run_sequence(fam, vec, seq, fresh):
    """(ii) Apply seq to one object; compare every result with the fresh-object result."""
    cls = observe.cls_of(fam)
    ops = make_ops(fam, vec)
    o, twin = cls(vec), cls(vec)
    for pos, i in enumerate(seq):
        name, fn = ops[i]
        try:
            r = opseq.canon(fn(o, twin))
        except Exception as e:  # noqa
            return "%s raised %s: %s (after %s)" % (name, type(e).__name__, e, [ops[j][0] for j in seq[:pos]])
        if r != fresh[i]:
            del _KEPT[:]
            return "%s returns %s after %s, but %s on a fresh object" % (
                name, json.dumps(r)[:160], [ops[j][0] for j in seq[:pos]], json.dumps(fresh[i])[:160])
    why = check_kept()
    if why:
        return "%s (sequence %s)" % (why, [ops[j][0] for j in seq])
    return None


def fresh_results(fam, vec):
    cls = observe.cls_of(fam)
    out = []
    for name, fn in make_ops(fam, vec):
        out.append(opseq.canon(fn(cls(vec), cls(vec))))
    return out


LONG_RUN = {"quick": 300, "thorough": 1500}
INTERPOSED = {"quick": 1100, "thorough": 4400}


def long_runs(fam, vec, fresh, n):
    """(iii) every operation n times in a row on one object, then all operations round-robin n
    times on another; every single result compared with the fresh-object result."""
    cls = observe.cls_of(fam)
    ops = make_ops(fam, vec)
    calls = 0
    for i, (name, fn) in enumerate(ops):
        o, twin = cls(vec), cls(vec)
        for k in range(n if name != "other_entry_points_used_in_between" else max(3, n // 30)):
            calls += 1
            try:
                r = opseq.canon(fn(o, twin))
            except Exception as e:  # noqa
                return calls, [i] * (k + 1), "%s raised %s: %s at call %d in a row" % (name, type(e).__name__, e, k + 1)
            if r != fresh[i]:
                return calls, [i] * (k + 1), "%s returns %s at call %d in a row on one object, but %s on a fresh object" % (
                    name, json.dumps(r)[:160], k + 1, json.dumps(fresh[i])[:160])
    o, twin = cls(vec), cls(vec)
    for k in range(n):
        for i, (name, fn) in enumerate(ops):
            if name == "other_entry_points_used_in_between" and k % 30:
                continue
            calls += 1
            try:
                r = opseq.canon(fn(o, twin))
            except Exception as e:  # noqa
                return calls, None, "%s raised %s: %s in round %d of all operations" % (name, type(e).__name__, e, k + 1)
            if r != fresh[i]:
                return calls, None, "%s returns %s in round %d of all operations on one object, but %s on a fresh object" % (
                    name, json.dumps(r)[:160], k + 1, json.dumps(fresh[i])[:160])
    why = check_kept()
    if why:
        return calls, None, why
    return calls, None, None


def interposed(fam, vecs, m):
    """(iv) other objects in between, for a group of seed vectors of one family in one process:
    fresh-object observations of every seed; then m other distinct objects of all versions go
    through every operation (whatever the observations left in a bounded shared cache is gone);
    then, per seed, an equal object spelled differently and after it the seed's object; then the
    m others again and every seed's object once more. All results must equal the fresh ones.
    Returns (calls, failing vector or None, why or None)."""
    from .. import spaces
    cls = observe.cls_of(fam)
    calls = [0]
    per = max(1, m // 8)
    others = []
    for f2 in [fam] + [f for f in T.FAMILIES if f != fam]:
        k = m - 3 * per if f2 == fam else per
        others += [(f2, v) for v in spaces.many_vectors(f2, k) if v not in vecs]

    def crowd():
        for f2, v in others:
            try:
                x = observe.cls_of(f2)(v)
                for name, fn in make_ops(f2):
                    fn(x, x)
                    calls[0] += 1
            except Exception as e:  # noqa
                return "another valid object, %s(%r), cannot be built and read: %s: %s" % (
                    T.CLASSNAME[f2], v, type(e).__name__, e)
        return None

    try:
        fresh = dict((v, fresh_results(fam, v)) for v in vecs)
        objs = dict((v, (cls(v), cls(v))) for v in vecs)
    except Exception as e:  # noqa
        return calls[0], vecs[0], "an accessor raised on a fresh object: %s: %s" % (type(e).__name__, e)

    def all_ops(v, when):
        o, twin = objs[v]
        for i, (name, fn) in enumerate(make_ops(fam, v)):
            calls[0] += 1
            try:
                r = opseq.canon(fn(o, twin))
            except Exception as e:  # noqa
                return "%s raised %s: %s %s" % (name, type(e).__name__, e, when)
            if r != fresh[v][i]:
                return "%s returns %s %s, but %s on a fresh object" % (
                    name, json.dumps(r)[:160], when, json.dumps(fresh[v][i])[:160])
        return None

    why = crowd()
    if why:
        return calls[0], vecs[0], why
    for v in vecs:
        other_vec = respelled(fam, v)
        try:
            other = cls(other_vec)
            for name, fn in make_ops(fam, other_vec):
                fn(other, cls(other_vec))
                calls[0] += 1
        except Exception as e:  # noqa
            return calls[0], v, "the equal object spelled %r cannot be built and read: %s: %s" % (
                other_vec, type(e).__name__, e)
        why = all_ops(v, "after %d other objects and then an equal object spelled %r went through the same operations" % (
            len(others), other_vec))
        if why:
            return calls[0], v, why
    why = crowd()
    if why:
        return calls[0], vecs[0], why
    for v in vecs:
        why = all_ops(v, "after %d other objects went through the same operations" % len(others))
        if why:
            return calls[0], v, why
    why = check_kept()
    if why:
        return calls[0], vecs[0], why
    return calls[0], None, None


def _crowd_task(t):
    fam, vecs = t
    acc = sweep.new_acc()
    tier = core.CURRENT_TIER or "quick"
    calls, v, why = interposed(fam, list(vecs), INTERPOSED.get(tier, 1100))
    acc["calls"] += calls
    acc["extra"]["interposed"] = calls
    if why:
        sweep.bad(acc, {"what": "%s(%r): %s" % (T.CLASSNAME[fam], v, why), "kind": "interposed", "family": fam,
                        "input": v, "group": list(vecs), "seq": [], "signature": {"kind": "interposed"}})
    return acc


def _task(t):
    fam, vec, depth = t
    acc = sweep.new_acc()
    try:
        fresh = fresh_results(fam, vec)
    except Exception as e:  # noqa
        sweep.bad(acc, {"what": "%s(%r): an accessor raised on a fresh object: %s: %s" % (
            T.CLASSNAME[fam], vec, type(e).__name__, e), "kind": "seq", "family": fam, "input": vec,
            "seq": [], "signature": {"kind": "seq"}})
        return acc
    nstates, ntrans, capped, v = bfs_seed(fam, vec, fresh)
    acc["extra"]["bfs"] = (nstates, ntrans, capped)
    acc["calls"] += ntrans
    if v:
        names = [make_ops(fam, vec)[i][0] for i in v[0][:-1]]
        sweep.bad(acc, {"what": "%s(%r): %s after %s" % (T.CLASSNAME[fam], vec, v[1], names),
                        "kind": "state", "family": fam, "input": vec, "seq": list(v[0]),
                        "signature": {"kind": "state"}})
    nops = len(fresh)
    for k in range(1, depth + 1):
        for seq in itertools.product(range(nops), repeat=k):
            acc["n"] += 1
            acc["calls"] += k
            acc["cmp"] += k
            why = run_sequence(fam, vec, seq, fresh)
            if why:
                sweep.bad(acc, {"what": "%s(%r): %s" % (T.CLASSNAME[fam], vec, why), "kind": "seq",
                                "family": fam, "input": vec, "seq": list(seq), "signature": {"kind": "seq"}})
                break
            if k > 1:
                acc["nontrivial"] += 1
    tier = core.CURRENT_TIER or "quick"
    if not acc["bad"]:
        calls, seq, why = long_runs(fam, vec, fresh, LONG_RUN.get(tier, 300))
        acc["calls"] += calls
        acc["cmp"] += calls
        acc["extra"]["long"] = calls
        if why:
            sweep.bad(acc, {"what": "%s(%r): %s" % (T.CLASSNAME[fam], vec, why), "kind": "long", "family": fam,
                            "input": vec, "seq": seq or [], "signature": {"kind": "long"}})
    if not acc["samples"]:
        acc["samples"].append({"vector": vec, "snapshot_bfs": {"states": nstates, "transitions": ntrans},
                               "ops": [n for n, _ in make_ops(fam, vec)]})
    return acc


def run(ctx, res):
    sd = seeds(40 if ctx.thorough else 20)
    deep = set(range(0, len(sd), 1 if ctx.thorough else 5))
    tasks = [(fam, vec, 3 if i in deep else 2) for i, (fam, vec) in enumerate(sd)]
    accs = core.task_map(_task, ctx.rot(tasks))
    groups = []
    for fam in T.FAMILIES:
        vs = [v for f, v in sd if f == fam]
        groups += [(fam, vs[i:i + 6]) for i in range(0, len(vs), 6)]
    accs += core.task_map(_crowd_task, groups)
    tot = sweep.merge(accs)
    bfs = [a["extra"].get("bfs", (0, 0, False)) for a in accs]
    cov = res.coverage
    cov["states"] = sum(b[0] for b in bfs)
    cov["transitions"] = sum(b[1] for b in bfs)
    cov["snapshot_bfs"] = {"seeds": len(sd), "states_total": cov["states"], "transitions_total": cov["transitions"],
                           "max_states_per_seed": max(b[0] for b in bfs),
                           "seeds_where_state_cap_was_hit": sum(1 for b in bfs if b[2])}
    cov["blackbox_sequences"] = tot["n"]
    cov["long_run_calls"] = sum(a["extra"].get("long", 0) for a in accs)
    cov["long_run_length"] = LONG_RUN.get(ctx.tier, 300)
    cov["interposed_calls"] = sum(a["extra"].get("interposed", 0) for a in accs)
    cov["interposed_objects"] = INTERPOSED.get(ctx.tier, 1100)
    cov["traces_validated_against_impl"] = tot["cmp"]
    cov["evaluations"] = tot["n"]
    cov["distinct_nontrivial"] = tot["nontrivial"]
    cov["rule"] = ("(i) states = distinct canonical snapshots (vars(obj) + all constant tables + "
                   "decimal context/sys.path/warnings filters) reached by operation histories, BFS to "
                   "fixpoint per seed, in every state every operation must return the fresh-object "
                   "result (more than one state is reported, not alarmed: a benign cache); (ii) every operation sequence up to depth 2 (depth 3 on a "
                   "subset / all seeds in the thorough tier) on one object, each result compared with "
                   "the same call on a fresh object; (iii) every operation long_run_length times in a "
                   "row on one object and all operations round-robin as many rounds on another; (iv) an "
                   "equal object spelled differently, then interposed_objects other distinct objects of "
                   "all versions go through every operation between two full observations of the "
                   "object; non-trivial = sequences of length >= 2")
    cov["exhaustive"] = False
    cov["bound"] = "%d seeds; all sequences <= depth 2 on all, <= depth 3 on %d seeds; snapshot BFS to fixpoint" % (
        len(sd), len(deep))
    cov["samples"] = ctx.rot(tot["samples"])[:4]
    for c in tot["bad"]:
        res.add_violation(c)
    cov["violating_cases_total"] = tot["nbad"]
    res.assumptions.append("(i) covers all finite sequences only if all state lives in the snapshot; "
                           "(ii) is the black-box complement up to the stated depth")


def replay(case):
    fam, vec, seq = case["family"], case["input"], tuple(case["seq"])
    try:
        fresh = fresh_results(fam, vec)
    except Exception as e:  # noqa
        return True, "accessor raised on a fresh object: %s" % e
    if case["kind"] == "state":
        n, t, capped, v = bfs_seed(fam, vec, fresh)
        return v is not None, "%d states; %s" % (n, v)
    if case["kind"] == "long":
        tier = case.get("tier") or "quick"
        calls, seq, why = long_runs(fam, vec, fresh, LONG_RUN.get(tier, 300))
        return bool(why), why or "pure over %d calls" % calls
    if case["kind"] == "interposed":
        tier = case.get("tier") or "quick"
        calls, v, why = interposed(fam, case.get("group") or [vec], INTERPOSED.get(tier, 1100))
        return bool(why), why or "pure over %d calls" % calls
    why = run_sequence(fam, vec, seq, fresh)
    return bool(why), why or "pure"


def replay_task(case):
    return core.replay_func_task(case)
