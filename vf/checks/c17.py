"""
C17 - the command-line calculator reports what the library computes and never crashes.
E3 over command lines: all 64 flag sets x {-v V, --vector=V} x a vector alphabet (valid and
invalid for every version) run through the real main() in process; interactive sessions with a
complete script, end of input after every prefix, and an invalid answer at each question; a subset
again as real subprocesses (python -m cvss.cvss_calculator) for the true exit status / stderr.
"""

import itertools
import os
import time
import re
import subprocess
import sys

from .. import cli, core, dialogue, observe, sweep
from ..ref import tables as T

VALID = {
    "2": ["AV:N/AC:L/Au:N/C:P/I:P/A:P", "AV:L/AC:H/Au:M/C:N/I:N/A:N", "AV:L/AC:H/Au:M/C:N/I:N/A:N/E:U/TD:N",
          "AV:N/AC:L/Au:N/C:C/I:C/A:C/E:F/RL:OF/RC:C/CDP:H/TD:H/CR:M/IR:M/AR:H",
          "A:C/I:P/C:N/Au:S/AC:M/AV:A/RL:ND", "AV:A/AC:M/Au:S/C:P/I:N/A:N/CDP:LM"],
    "3.0": ["CVSS:3.0/AV:N/AC:L/PR:N/UI:N/S:U/C:H/I:H/A:H", "CVSS:3.0/AV:P/AC:H/PR:H/UI:R/S:U/C:N/I:N/A:N",
            "CVSS:3.0/AV:L/AC:L/PR:L/UI:R/S:C/C:L/I:L/A:N/E:P/RL:T/RC:R",
            "CVSS:3.0/S:C/C:H/I:H/A:N/AV:P/AC:H/PR:H/UI:R/E:H/RL:O/RC:R/CR:H/IR:X/AR:X/MAC:H/MPR:X/MUI:X/MC:L/MA:X",
            "CVSS:3.0/AV:N/AC:L/PR:N/UI:N/S:C/C:H/I:H/A:H/MS:U/MC:N/MI:N/MA:N",
            "CVSS:3.0/AV:A/AC:H/PR:L/UI:N/S:U/C:L/I:N/A:H/CR:L"],
    "3.1": ["CVSS:3.1/AV:N/AC:L/PR:N/UI:N/S:U/C:H/I:H/A:H", "CVSS:3.1/AV:P/AC:H/PR:H/UI:R/S:U/C:N/I:N/A:N",
            "CVSS:3.1/AV:L/AC:L/PR:L/UI:R/S:C/C:L/I:L/A:N/E:P/RL:T/RC:R",
            "CVSS:3.1/AV:N/AC:H/PR:N/UI:R/S:C/C:H/I:L/A:N/E:U/RL:O/RC:U/CR:H/IR:M/AR:L/MAV:P/MAC:L/MPR:H/MUI:N/MS:C/MC:H/MI:H/MA:H",
            "CVSS:3.1/AV:N/AC:L/PR:N/UI:N/S:C/C:H/I:H/A:H/MS:U/MC:N/MI:N/MA:N",
            "CVSS:3.1/A:L/I:L/C:L/S:U/UI:N/PR:N/AC:L/AV:N/RC:X"],
    "4.0": ["CVSS:4.0/AV:N/AC:L/AT:N/PR:N/UI:N/VC:H/VI:H/VA:H/SC:H/SI:H/SA:H",
            "CVSS:4.0/AV:P/AC:H/AT:P/PR:H/UI:A/VC:N/VI:N/VA:N/SC:N/SI:N/SA:N",
            "CVSS:4.0/AV:A/AC:L/AT:N/PR:L/UI:P/VC:L/VI:H/VA:N/SC:N/SI:L/SA:N/E:P/CR:M/MSI:S",
            "CVSS:4.0/AV:L/AC:H/AT:P/PR:N/UI:P/VC:H/VI:N/VA:N/SC:N/SI:N/SA:N/S:P/AU:N/R:A/V:D/RE:L/U:Red/MAV:L/MAC:L/MAT:N/MPR:L/MUI:A/MVC:L/MVI:N/MVA:H/MSC:H/MSI:L/MSA:N/CR:H/IR:L/AR:L/E:P",
            "CVSS:4.0/SA:L/SI:L/SC:L/VA:L/VI:L/VC:L/UI:N/PR:N/AT:N/AC:L/AV:N",
            "CVSS:4.0/AV:N/AC:L/AT:N/PR:N/UI:N/VC:N/VI:N/VA:H/SC:N/SI:N/SA:N/AR:L/U:Clear",
            # the lowest macrovector (no next-lower macrovector in any class) and the highest
            "CVSS:4.0/AV:P/AC:H/AT:P/PR:H/UI:A/VC:L/VI:L/VA:L/SC:L/SI:L/SA:L/E:U",
            "CVSS:4.0/AV:L/AC:H/AT:N/PR:L/UI:P/VC:N/VI:N/VA:L/SC:N/SI:N/SA:N/E:U/CR:L/IR:L/AR:L",
            "CVSS:4.0/AV:N/AC:L/AT:N/PR:N/UI:N/VC:H/VI:H/VA:H/SC:H/SI:H/SA:H/MSI:S/MSA:S"],
}
INVALID = ["CVSS:3.\u0661/AV:N/AC:L/PR:N/UI:N/S:U/C:H/I:H/A:H", "CVSS:3.\u00b9/AV:N/AC:L/PR:N/UI:N/S:U/C:H/I:H/A:H",
           "CVSS:4.\uff10/AV:N/AC:L/AT:N/PR:N/UI:N/VC:H/VI:H/VA:H/SC:N/SI:N/SA:N", "(AV:N/AC:L/Au:N/C:P/I:P/A:P)",
           "x", "AV:N", "AV:N/AC:L/Au:N/C:P/I:P", "AV:N/AC:L/Au:N/C:P/I:P/A:P/", "AV:N/AC:L/Au:N/C:P/I:P/A:Q",
           "AV:N/AC:L/Au:N/C:P/I:P/A:P/A:P", "CVSS:3.1/", "CVSS:3.2/AV:N/AC:L/PR:N/UI:N/S:U/C:H/I:H/A:H",
           "CVSS:3.1/AV:N/AC:L/PR:N/UI:N/S:U/C:H/I:H", "CVSS:3.1/AV:N/AC:L/PR:N/UI:N/S:U/C:H/I:H/A:H/A:H",
           "CVSS:4.0/AV:N/AC:L/AT:N/PR:N/UI:N/VC:H/VI:H/VA:H/SC:H/SI:H",
           "CVSS:4.0/AV:N/AC:L/AT:N/PR:N/UI:N/VC:H/VI:H/VA:H/SC:H/SI:H/SA:S", "CVSS:4.0/JJ:H",
           "é:N/AC:L", "AV:N AC:L", " ", "7.5/AV:N/AC:L/Au:N/C:P/I:P/A:P", "AV:N//AC:L", ":", "/",
           "{0}", "%s", "AV:N\nAC:L",
           # fields with too many / misplaced colons, values legal for a sibling metric only
           "AV:N:N/AC:L/Au:N/C:P/I:P/A:P", "AV:N/AC:L/Au:N/C:P/I:P/A:P:", "AV:N/AC:L/Au:N/C:P/I:P/A:P/E::F",
           "CVSS:3.1/AV:N/AC:L/PR:N/UI:N/S:U/C:H/I:H/A:H:", "CVSS:3.1/AV:N/AC:L:H/PR:N/UI:N/S:U/C:H/I:H/A:H",
           "CVSS:4.0/AV:N/AC:L/AT:N/PR:N/UI:N/VC:H/VI:H/VA:H/SC:N/SI:N/SA:N/MSC:S",
           "CVSS:4.0/AV:N/AC:L/AT:N/PR:N/UI:N/VC:H/VI:H/VA:H/SC:N/SI:S/SA:N",
           "CVSS:4.0/AV:N/AC:L/AT:N/PR:N/UI:N/VC:H/VI:H/VA:H/SC:N/SI:N/SA:N/E:F",
           "CVSS:3.1/AV:N/AC:L/PR:N/UI:N/S:U/C:H/I:H/A:H/E:A", "AV:N/AC:L/Au:N/C:P/I:P/A:P/E:P",
           "CVSS:4.0/AV:N/AC:L/AT:N/PR:N/UI:N/VC:H/VI:H/VA:H/SC:N/SI:N/SA:N/CVSS:4.0",
           # scale: absurdly long version numbers, fields and vectors
           "CVSS:3." + "1" * 5000 + "/AV:N/AC:L/PR:N/UI:N/S:U/C:H/I:H/A:H", "CVSS:4." + "0" * 5000 + "/AV:N",
           "CVSS:" + "3" * 5000 + ".1/AV:N", "AV:N/AC:L/Au:N/C:P/I:P/A:" + "P" * 20000,
           "/".join(["AV:N/AC:L/Au:N/C:P/I:P/A:P"] * 300)]
VERSION_FLAGS = [list(c) for r in range(4) for c in itertools.combinations(["-2", "-3", "-4"], r)]
OTHER_FLAGS = [list(c) for r in range(4) for c in itertools.combinations(["-j", "-a", "-n"], r)]


def vectors():
    out = []
    for fam in T.FAMILIES:
        out += VALID[fam]
    # valid vectors wrapped in blanks: the library rejects these strings as they stand
    wrapped = []
    for fam in T.FAMILIES:
        v = VALID[fam][0]
        wrapped += [v + " ", " " + v, "\t" + v, v + "\n", " " + v + " "]
    # colon faults in the first, a middle and the last field of a valid vector of every version
    colons = []
    for fam in T.FAMILIES:
        v = VALID[fam][0]
        P = T.PREFIX[fam]
        f = v[len(P):].split("/")
        for i in (0, len(f) // 2, len(f) - 1):
            m, val = f[i].split(":")
            for bad in ("%s:%s:%s" % (m, val, val), "%s::%s" % (m, val), "%s:%s:" % (m, val), ":%s:%s" % (m, val),
                        "%s%s" % (m, val)):
                colons.append(P + "/".join(f[:i] + [bad] + f[i + 1:]))
    return out + INVALID + wrapped + colons


OTHER_VECTOR = "CVSS:3.1/AV:L/AC:H/PR:H/UI:R/S:U/C:L/I:N/A:N"


def judge_cmd(args, vector, form):
    if form == "first":                 # the vector option in front of the flags
        argv = ["-v", vector] + list(args)
    elif form == "twice":               # every flag given twice
        argv = list(args) + list(args) + ["-v", vector]
    elif form == "two-v":               # the vector option given twice: either reading is admitted
        argv = ["-v", OTHER_VECTOR] + list(args) + ["-v", vector]
    else:
        argv = list(args) + (["-v", vector] if form == "-v" else ["--vector=" + vector])
    res = cli.run_main(argv, "")
    why = cli.judge_vector(args, vector, res, "-j" in args)
    if why and form == "two-v" and cli.judge_vector(args, OTHER_VECTOR, res, "-j" in args) is None:
        why = None
    return why, argv, res


def _vec_task(t):
    vflags, vecs = t
    acc = sweep.new_acc()
    for oflags in OTHER_FLAGS:
        for vec in vecs:
            for form in ("-v", "--vector=", "first", "twice", "two-v"):
                if form != "--vector=" and vec.startswith("-"):
                    continue
                args = vflags + oflags
                acc["n"] += 1
                acc["calls"] += 1
                acc["cmp"] += 1
                why, argv, res = judge_cmd(args, vec, form)
                if why:
                    sweep.bad(acc, {"what": "cvss_calculator %s: %s" % (" ".join(map(repr, argv)), why),
                                    "kind": "cli_vector", "input": {"args": args, "vector": vec, "form": form},
                                    "signature": {"kind": "cli_vector"}})
                    continue
                acc["outcomes"].add((tuple(vflags), res["out"].split("\n", 1)[0][:12]))
                acc["nontrivial"] += 1
                if not acc["samples"] and "-j" in args and len(vflags) == 1:
                    acc["samples"].append({"argv": argv, "stdout_head": res["out"][:160]})
    return acc


def interactive_cases(fam, allm, every_value=False):
    """(script, description): complete default script, EOF after every prefix, one invalid answer at
    each question."""
    ms = dialogue.expected_metrics(fam, allm)
    yield {}, "complete"
    for k in range(len(ms) + 1):
        # end of input when the (k+1)-th distinct metric is asked: give answers for k metrics only
        yield ("eof", k), "eof after %d answers" % k
    for m in ms:
        yield {m: ["?", T.METRICS[fam][m][-1]]}, "invalid answer at %s" % m
        yield {m: [T.METRICS[fam][m][-1].lower()]}, "lower-case answer at %s" % m
    if every_value or not allm:
        # scale: 1,500 refused answers at the first question, an over-long answer line
        yield {ms[0]: ["?"] * 1500 + [T.METRICS[fam][ms[0]][-1]]}, "1500 invalid answers at %s" % ms[0]
        yield {ms[1]: ["Q" * 1024 + T.METRICS[fam][ms[1]][-1], T.METRICS[fam][ms[1]][0]]}, "over-long answer at %s" % ms[1]
    if allm and every_value:
        for m in ms:
            for v in T.METRICS[fam][m][1:]:
                yield {m: [v]}, "answer %s at %s" % (v, m)


# a line of the report (a score with its label), whatever the label's exact wording
REPORT_LINE = re.compile(r"(?i)^[^:]*\b(base|temporal|environmental)\b[^:]*:\s*\d+(\.\d+)?\b")


class CountingStdin(dialogue.ReactiveStdin):
    """Answers default values until `limit` questions were answered, then end of input."""

    def __init__(self, fam, limit, default):
        dialogue.ReactiveStdin.__init__(self, fam, None, {}, default)
        self.limit = limit

    def readline(self, *a):
        if len(self.asked) >= self.limit:
            self.asked.append("<eof>")
            return ""
        return dialogue.ReactiveStdin.readline(self, *a)


def judge_interactive(vflag, oflags, script):
    fam = cli.selected(vflag)[0][1]
    allm = "-a" in oflags
    dflt = lambda m: [T.METRICS[fam][m][0]]
    if isinstance(script, (tuple, list)) and script and script[0] == "eof":
        stdin = CountingStdin(fam, script[1], dflt)
        res = cli.run_main(vflag + oflags, stdin)
        bad = cli.basic(res)
        if bad:
            return bad, res
        if script[1] < len(dialogue.expected_metrics(fam, allm)):
            for ln in res["out"].split("\n")[-4:]:
                if REPORT_LINE.match(ln):
                    return "prints a report although the input ended early", res
        return None, res
    stdin = dialogue.ReactiveStdin(fam, None, script, dflt)
    res = cli.run_main(vflag + oflags, stdin)
    bad = cli.basic(res)
    if bad:
        return bad, res
    run = {"asked": stdin.asked, "prompts": stdin.prompts, "answers": stdin.answers}
    # reconstruct the vector the dialogue model expects and compare the report with the API's view
    order = []
    for m in stdin.asked:
        if m is None:
            return "a question is not about a metric of CVSS %s: %r" % (fam, stdin.prompts[stdin.asked.index(None)]), res
        if m not in order:
            order.append(m)
    results, eofs = dialogue.model_run(fam, allm, script, order, dflt)
    want_metrics = dialogue.expected_metrics(fam, allm)
    if sorted(order) != sorted(want_metrics):
        return "asked %s, expected the metrics %s" % (order, want_metrics), res
    tail = res["out"]
    whys = []
    for r in sorted(results):
        kind, view = cli.api_view(cli.selected(vflag)[0][0], r[1])
        if kind != "ok":
            whys.append("the built vector %r is rejected: %s" % (r[1], view))
            continue
        # the report is the text after the last question
        why = cli.check_report(tail[tail.rfind(stdin.prompts[-1]):] if stdin.prompts else tail, view, "-j" in oflags)
        if why is None:
            return None, res
        whys.append(why)
    return "; ".join(whys) or "no admitted result", res


def _int_task(t):
    vflag, oflags = t
    acc = sweep.new_acc()
    fam = cli.selected(vflag)[0][1]
    for f in T.FAMILIES:      # sessions of every version first (see c16.warm_up)
        dialogue.run_builder(f, True, True, {}, lambda m, f=f: [T.METRICS[f][m][0]])
    for script, desc in interactive_cases(fam, "-a" in oflags, sorted(oflags) == ["-a", "-n"]):
        acc["n"] += 1
        acc["cmp"] += 1
        why, res = judge_interactive(vflag, oflags, script)
        acc["calls"] += 1
        if why:
            sweep.bad(acc, {"what": "cvss_calculator %s (interactive, %s): %s" % (" ".join(vflag + oflags), desc, why),
                            "kind": "cli_interactive",
                            "input": {"vflag": vflag, "oflags": oflags, "script": script},
                            "signature": {"kind": "cli_interactive"}})
        else:
            acc["nontrivial"] += 1
            acc["outcomes"].add((tuple(vflag), desc.split(" ")[0]))
            if not acc["samples"] and desc == "complete":
                acc["samples"].append({"argv": vflag + oflags, "stdin": "default answers",
                                       "stdout_tail": res["out"][-200:]})
    return acc


def sub_run(args, stdin_text, pyflags=()):
    env = dict(os.environ)
    env["PYTHONPATH"] = core.REPO
    env["PYTHONDONTWRITEBYTECODE"] = "1"
    p = subprocess.Popen([sys.executable] + list(pyflags) + ["-m", "cvss.cvss_calculator"] + args, stdin=subprocess.PIPE,
                         stdout=subprocess.PIPE, stderr=subprocess.PIPE, env=env, cwd="/")
    out, err = p.communicate(stdin_text.encode("utf-8"))
    return {"status": p.returncode, "exc": None, "out": out.decode("utf-8", "replace"),
            "err": err.decode("utf-8", "replace")}


ANSI = re.compile("\x1b\\[[0-9;]*[A-Za-z]")


def pty_run(args, typed):
    """The calculator as a real process whose stdin, stdout and stderr are a terminal (what a user
    at a shell has): `typed` is written to the terminal up front, echo off. Returns the same dict
    as sub_run, the terminal's output with CR LF folded and colour sequences removed."""
    import pty
    import select
    import termios
    env = dict(os.environ)
    env["PYTHONPATH"] = core.REPO
    env["PYTHONDONTWRITEBYTECODE"] = "1"
    env["TERM"] = "xterm"
    master, slave = pty.openpty()
    attrs = termios.tcgetattr(slave)
    attrs[3] &= ~termios.ECHO
    termios.tcsetattr(slave, termios.TCSANOW, attrs)
    p = subprocess.Popen([sys.executable, "-m", "cvss.cvss_calculator"] + args, stdin=slave, stdout=slave,
                         stderr=slave, env=env, cwd="/", close_fds=True)
    os.close(slave)
    os.write(master, typed.encode("utf-8"))
    chunks = []
    deadline = time.time() + 30
    while time.time() < deadline:
        r, _, _ = select.select([master], [], [], 0.5)
        if r:
            try:
                b = os.read(master, 65536)
            except OSError:
                break
            if not b:
                break
            chunks.append(b)
        elif p.poll() is not None:
            break
    try:
        p.wait(timeout=max(1, deadline - time.time()))
    except subprocess.TimeoutExpired:
        p.kill()
        p.wait()
        os.close(master)
        return {"status": None, "exc": "the process did not end within 30 s on a terminal", "out": "", "err": ""}
    os.close(master)
    out = b"".join(chunks).decode("utf-8", "replace").replace("\r\n", "\n")
    return {"status": p.returncode, "exc": None, "out": ANSI.sub("", out), "err": "", "raw": out}


def _pty_task(t):
    """Terminal runs: a vector on the command line; a complete interactive session answering every
    question with the metric's first legal value; end of input (Ctrl-D) after two answers."""
    acc = sweep.new_acc()
    for args, vec in t:
        acc["n"] += 1
        acc["calls"] += 1
        acc["cmp"] += 1
        fam = cli.selected(args)[0][1]
        allm = "-a" in args
        if vec == "<session>":
            ms = dialogue.expected_metrics(fam, allm)
            vector = T.PREFIX[fam] + "/".join("%s:%s" % (m, T.METRICS[fam][m][0]) for m in ms)
            # the answers are keyed by position here: typed up front, the statement's question
            # order (each metric once) is C16's business and is checked there
            res = pty_run(args, "".join(T.METRICS[fam][m][0] + "\n" for m in ms))
            why = cli.basic(res)
            if not why:
                kind, view = cli.api_view(cli.selected(args)[0][0], vector)
                tail = res["out"]
                cut = max(tail.rfind(lbl) for lbl in ("Base Score",))
                why = cli.check_report(tail[tail.rfind("\n", 0, cut) + 1:] if cut >= 0 else tail, view, "-j" in args) \
                    if kind == "ok" else "the vector of first values %r is rejected" % vector
        elif vec == "<eof>":
            ms = dialogue.expected_metrics(fam, allm)
            res = pty_run(args, "".join(T.METRICS[fam][m][0] + "\n" for m in ms[:2]) + "\x04")
            why = cli.basic(res)
            if not why and "Base Score" in res["out"]:
                why = "prints a report although the input ended after two answers"
        else:
            res = pty_run(args + ["--vector=" + vec], "")
            why = cli.judge_vector(args, vec, res, "-j" in args)
        if why:
            sweep.bad(acc, {"what": "python -m cvss.cvss_calculator %s %r (on a terminal): %s" % (" ".join(args), vec, why),
                            "kind": "cli_pty", "input": {"args": args, "vector": vec},
                            "signature": {"kind": "cli_pty"}})
        else:
            acc["nontrivial"] += 1
    return acc


def _empty_task(vfs):
    """-v "" / no vector, any version flags: interactive session, immediate end of input."""
    empty = sweep.new_acc()
    for vf in vfs:
        for of in OTHER_FLAGS:
            for argv in (vf + of, vf + of + ["-v", ""], vf + of + ["--vector="]):
                empty["n"] += 1
                empty["calls"] += 1
                empty["cmp"] += 1
                r = cli.run_main(argv, "")
                why = cli.basic(r)
                if why:
                    sweep.bad(empty, {"what": "cvss_calculator %s with empty stdin: %s" % (" ".join(map(repr, argv)), why),
                                      "kind": "cli_empty", "input": {"argv": argv},
                                      "signature": {"kind": "cli_empty"}})
                else:
                    empty["nontrivial"] += 1
    return empty


def _sub_task(t):
    acc = sweep.new_acc()
    for args, vec in t:
        acc["n"] += 1
        acc["calls"] += 1
        acc["cmp"] += 1
        # every fourth run with assertions and docstrings stripped (python -OO): the same program
        pyflags = ["-OO"] if acc["n"] % 4 == 0 else []
        if vec is None:
            res = sub_run(args, "", pyflags)
            why = cli.basic(res)
        else:
            res = sub_run(args + ["--vector=" + vec], "", pyflags)
            why = cli.judge_vector(args, vec, res, "-j" in args)
        if why:
            sweep.bad(acc, {"what": "python %s-m cvss.cvss_calculator %s %r (subprocess): %s" % (
                "".join(f + " " for f in pyflags), " ".join(args), vec, why),
                            "kind": "cli_subprocess", "input": {"args": args, "vector": vec, "pyflags": pyflags},
                            "signature": {"kind": "cli_subprocess"}})
        else:
            acc["nontrivial"] += 1
    return acc


def run(ctx, res):
    vecs = vectors()
    tasks = [(vf, vecs) for vf in VERSION_FLAGS]
    accs = core.task_map(_vec_task, ctx.rot(tasks))
    empty = sweep.merge(core.task_map(_empty_task, [[vf] for vf in VERSION_FLAGS]))
    empty["extra"] = {}
    itasks = [(vf, of) for vf in VERSION_FLAGS if len(vf) <= 1 for of in OTHER_FLAGS]
    accs_i = core.task_map(_int_task, ctx.rot(itasks))
    # real subprocesses
    sub = []
    vset = vecs if ctx.thorough else vecs[::3]
    for vf in VERSION_FLAGS[:4] + ([VERSION_FLAGS[-1]] if ctx.thorough else []):
        for of in ([[], ["-j"]] if not ctx.thorough else [[], ["-j"], ["-a", "-n"]]):
            for v in vset:
                sub.append((vf + of, v))
            sub.append((vf + of, None))
    accs_s = core.pool_map(_sub_task, [sub[i::32] for i in range(32)])
    # the same program on a terminal (stdin, stdout, stderr are a pty)
    term = []
    for vf in VERSION_FLAGS[:4]:
        for of in [[], ["-n"], ["-j"], ["-a", "-n"], ["-a", "-j"]]:
            term.append((vf + of, "<session>"))
            term.append((vf + of, "<eof>"))
            for v in [VALID[cli.selected(vf)[0][1]][0], "x"] + (vset[::7] if ctx.thorough else []):
                term.append((vf + of, v))
    accs_t = core.pool_map(_pty_task, [term[i::16] for i in range(16)])
    res.coverage["terminal_runs"] = sum(a["n"] for a in accs_t)
    tot = sweep.merge(accs + accs_i + accs_s + accs_t)
    for k in ("n", "calls", "cmp", "nontrivial", "nbad"):
        tot[k] += empty[k]
    tot["bad"] += empty["bad"]
    cov = res.coverage
    cov["states"] = tot["n"]
    cov["transitions"] = tot["calls"]
    cov["traces_validated_against_impl"] = tot["cmp"]
    cov["evaluations"] = tot["n"]
    cov["distinct_nontrivial"] = tot["nontrivial"]
    cov["distinct_outcomes"] = len(tot["outcomes"])
    cov["in_process_vector_command_lines"] = sum(a["n"] for a in accs)
    cov["interactive_sessions"] = sum(a["n"] for a in accs_i) + empty["n"]
    cov["subprocess_command_lines"] = sum(a["n"] for a in accs_s)
    cov["rule"] = ("states = complete program runs; the real main() is run with every flag set x "
                   "vector x option form; the output is parsed (label: tokens) and compared with "
                   "the API's view of the vector under an admitted version selection; interactive "
                   "runs: complete script, end of input after every prefix, an invalid and a "
                   "lower-case answer at each question; non-trivial = runs whose output was fully "
                   "matched")
    cov["exhaustive"] = True
    cov["bound"] = "64 flag sets x %d vectors x 2 option forms; %d interactive sessions; %d subprocess runs" % (
        len(vecs), cov["interactive_sessions"], cov["subprocess_command_lines"])
    cov["samples"] = ctx.rot(tot["samples"])[:6]
    for c in tot["bad"]:
        res.add_violation(c)
    cov["violating_cases_total"] = tot["nbad"]
    res.assumptions += ["several version flags at once: output consistent with any one of them is admitted",
                        "an empty VECTOR may start the interactive session (admitted reading)",
                        "VECTOR values beginning with '-' only in the --vector=V form (argparse)"]


def replay(case):
    i = case["input"]
    if case["kind"] == "cli_vector":
        why, argv, res = judge_cmd(i["args"], i["vector"], i["form"])
    elif case["kind"] == "cli_interactive":
        sc = i["script"]
        why, res = judge_interactive(i["vflag"], i["oflags"], tuple(sc) if isinstance(sc, list) else sc)
    elif case["kind"] == "cli_empty":
        why = cli.basic(cli.run_main(i["argv"], ""))
    elif case["kind"] == "cli_pty":
        acc = _pty_task([(i["args"], i["vector"])])
        why = acc["bad"][0]["what"] if acc["bad"] else None
    else:
        if i["vector"] is None:
            why = cli.basic(sub_run(i["args"], "", i.get("pyflags", ())))
        else:
            why = cli.judge_vector(i["args"], i["vector"],
                                   sub_run(i["args"] + ["--vector=" + i["vector"]], "", i.get("pyflags", ())),
                                   "-j" in i["args"])
    return bool(why), why or "as the API reports"


def replay_task(case):
    return core.replay_func_task(case)
