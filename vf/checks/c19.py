"""
C19 - results depend only on the input: no hidden state or ambient dependence.
Four sub-explorations, one verdict:
 (1) histories   E3: after every history of <=k process-level API calls (successful and failing)
                 a fixed probe is evaluated and must equal the pristine probe; constant tables and
                 ambient state (decimal context, sys.path, warning filters) must be unchanged; non-CLI
                 calls must not write to stdout/stderr.
 (2) schedules   E4: pairs (and one triple) of real threads building objects concurrently, every
                 interleaving with <=1 preemption at line granularity and <=2 at call (quick) / line
                 (thorough) granularity; each thread's observations must equal the sequential ones.
 (3) hash seeds  E5: the probe program under several PYTHONHASHSEED values, lists compared as lists.
 (4) decimal     every rounding mode x several precisions >= 28 set ambiently: complete v3 impact
                 space, v2 and v4 subsets; scores must equal those under the default context and the
                 context must be left unchanged.
"""

import decimal
import hashlib
import io
import itertools
import json
import multiprocessing
import os
import sys

from .. import core, dialogue, observe, probe, spaces, sweep
from ..engine import config, opseq, sched
from ..ref import tables as T

# The parent process of a run never executes library code itself (only imports it): everything that
# needs a pristine process - the baseline probe, point counts, cold schedules - runs in a fork.

def in_fork(fn):
    """Run fn() in a fresh fork of this process; returns its JSON-serialisable result."""
    r, w = os.pipe()
    pid = os.fork()
    if pid == 0:
        code = 0
        try:
            os.close(r)
            try:
                data = json.dumps(["ok", fn()])
            except BaseException as e:  # noqa
                data = json.dumps(["err", "%s: %s" % (type(e).__name__, e)])
            data = data.encode("utf-8")
            while data:
                n = os.write(w, data)
                data = data[n:]
        except BaseException:  # noqa
            code = 1
        finally:
            os._exit(code)
    os.close(w)
    chunks = []
    while True:
        b = os.read(r, 65536)
        if not b:
            break
        chunks.append(b)
    os.close(r)
    os.waitpid(pid, 0)
    kind, val = json.loads(b"".join(chunks).decode("utf-8"))
    if kind != "ok":
        raise core.HarnessError("forked schedule execution failed: %s" % val)
    return val



# =============================================================================== (1) histories

V2A = "AV:N/AC:L/Au:N/C:P/I:P/A:P"
V2B = "AV:L/AC:H/Au:M/C:N/I:P/A:C/E:U/RL:W/CDP:L/TD:H/AR:M"
BODY3 = "AV:L/AC:L/PR:L/UI:R/S:C/C:N/I:H/A:H/E:P/CR:H"      # 3.0 scores (7.9, 7.5, 7.5), 3.1 (7.9, 7.5, 7.4)
V30, V31 = "CVSS:3.0/" + BODY3, "CVSS:3.1/" + BODY3
V31B = "CVSS:3.1/AV:L/AC:H/PR:H/UI:R/S:U/C:L/I:N/A:L"
V31B_RE = "CVSS:3.1/A:L/I:N/C:L/S:U/UI:R/PR:H/AC:H/AV:L/E:X/MAV:X/CR:X"
V4A = "CVSS:4.0/AV:N/AC:L/AT:N/PR:N/UI:N/VC:H/VI:H/VA:H/SC:H/SI:H/SA:H"
V4B = "CVSS:4.0/AV:L/AC:H/AT:P/PR:L/UI:A/VC:L/VI:N/VA:L/SC:N/SI:L/SA:N/E:U/CR:L/MSI:S/MAV:N/U:Red"
# vectors whose scores sit exactly on severity band edges (3.9 / 6.9 / 8.9)
EDGE3 = ["CVSS:3.1/AV:N/AC:H/PR:H/UI:R/S:U/C:L/I:L/A:L", "CVSS:3.1/AV:N/AC:L/PR:H/UI:R/S:C/C:H/I:L/A:N",
         "CVSS:3.1/AV:N/AC:L/PR:L/UI:R/S:C/C:H/I:H/A:L", "CVSS:3.0/AV:N/AC:L/PR:N/UI:N/S:U/C:H/I:H/A:L/E:P"]
EDGE2 = ["AV:L/AC:H/Au:M/C:N/I:C/A:C/E:U/RL:OF", "AV:L/AC:M/Au:N/C:C/I:C/A:C/E:POC"]
EDGE4 = ["CVSS:4.0/AV:N/AC:L/AT:N/PR:N/UI:N/VC:L/VI:L/VA:L/SC:L/SI:L/SA:L",
         "CVSS:4.0/AV:N/AC:L/AT:P/PR:N/UI:N/VC:H/VI:N/VA:N/SC:H/SI:N/SA:N"]
TEXT = "see " + V2A + " and " + V31 + ", also " + V2B + " (" + V30 + ") " + V2A

_LL = {}


def _cls(name):
    import cvss
    return getattr(cvss, name)


def _try(f):
    try:
        return f()
    except Exception as e:  # noqa
        return e


def _use(o):
    out = [o.scores(), o.severities(), o.clean_vector(), o.rh_vector()]
    for s in (False, True):
        for m in (False, True):
            d = o.as_json(sort=s, minimal=m)
            out.append(json.dumps(d, sort_keys=True))
            d.clear()
    if hasattr(o, "temporal_vector"):
        out += [o.temporal_vector(), o.environmental_vector()]
    hash(o)
    o == o
    return out


def _ll(key, cls, vec):
    if key not in _LL:
        _LL[key] = _cls(cls)(vec)
    return _use(_LL[key])


def _builder(fam, allm, answers):
    return probe.obs_builder(dialogue.VERSION_ARG[fam], allm, True, answers)


def _edge_objects():
    return [_cls("CVSS3")(v) for v in EDGE3] + [_cls("CVSS2")(v) for v in EDGE2] + [_cls("CVSS4")(v) for v in EDGE4]


OPS = [
    ("the whole probe", lambda: run_probe(), True),
    ("band-edge vectors of every version", lambda: _edge_objects(), False),
    ("CVSS2(valid)", lambda: _cls("CVSS2")(V2B), False),
    ("CVSS3(3.0 body)", lambda: _cls("CVSS3")(V30), False),
    ("CVSS3(3.1 same body)", lambda: _cls("CVSS3")(V31), False),
    ("CVSS3(other)", lambda: _cls("CVSS3")(V31B), False),
    ("CVSS3(other, reordered + explicit X)", lambda: _cls("CVSS3")(V31B_RE), False),
    ("CVSS4(valid)", lambda: _cls("CVSS4")(V4B), False),
    ("CVSS4(valid 2)", lambda: _cls("CVSS4")(V4A), False),
    ("CVSS2(malformed)", lambda: _try(lambda: _cls("CVSS2")(V2A + "/AV:L")), False),
    ("CVSS3(malformed after parsing fields)", lambda: _try(lambda: _cls("CVSS3")(V31 + "/MA:Q")), False),
    ("CVSS4(malformed after parsing fields)", lambda: _try(lambda: _cls("CVSS4")(V4B + "/ZZ:1")), False),
    ("CVSS2(mandatory missing)", lambda: _try(lambda: _cls("CVSS2")("AV:N/AC:L/E:F/CR:H")), False),
    ("CVSS3(mandatory missing)", lambda: _try(lambda: _cls("CVSS3")("CVSS:3.1/AV:P/S:C/MS:U/E:U")), False),
    ("CVSS4(mandatory missing)", lambda: _try(lambda: _cls("CVSS4")("CVSS:4.0/AV:P/MSI:S/E:U/CR:L")), False),
    ("CVSS3(v2 vector)", lambda: _try(lambda: _cls("CVSS3")(V2A)), False),
    ("from_rh_vector ok v3", lambda: _cls("CVSS3").from_rh_vector(_cls("CVSS3")(V31B).rh_vector()), False),
    ("from_rh_vector mismatch v2", lambda: _try(lambda: _cls("CVSS2").from_rh_vector("1.0/" + V2A)), False),
    ("from_rh_vector malformed v4", lambda: _try(lambda: _cls("CVSS4").from_rh_vector("x" + V4A)), False),
    ("from_rh_vector ok v4", lambda: _cls("CVSS4").from_rh_vector(_cls("CVSS4")(V4B).rh_vector()), False),
    ("parse_cvss_from_text", lambda: __import__("cvss.parser").parser.parse_cvss_from_text(TEXT), False),
    ("accessors on long-lived CVSS2", lambda: _ll("2", "CVSS2", V2B), False),
    ("accessors on long-lived CVSS3", lambda: _ll("3", "CVSS3", V30), False),
    ("accessors on long-lived CVSS4", lambda: _ll("4", "CVSS4", V4B), False),
    ("ask_interactively v3.1 mandatory", lambda: _builder("3.1", False, ["n", "h", "?", "l", "r", "c", "h", "l", "n"]), True),
    ("ask_interactively v4 all, early EOF", lambda: _builder("4.0", True, ["P", "H", "P", "H", "A", "L"]), True),
    ("ask_interactively v2 all", lambda: _builder("2", True, ["n", "l", "n", "p", "p", "c", "", "of", "", "h", "", "", "l", "h"]), True),
    ("main -3 -j -v", lambda: probe.obs_cli(["-3", "-j", "-v", V30]), True),
    ("main -2 -v invalid", lambda: probe.obs_cli(["-2", "-v", V31]), True),
    ("main -4 -a interactive EOF", lambda: probe.obs_cli(["-4", "-a", "-n"], "N\nL\n"), True),
]


def heavy():
    """Scale: 3,000 distinct vectors of every version built, scored and serialised in this thread."""
    from .. import spaces
    n = 0
    for fam in T.FAMILIES:
        cls = observe.cls_of(fam)
        for v in spaces.many_vectors(fam, 3000):
            o = cls(v)
            o.scores()
            o.severities()
            o.as_json()
            o.as_json(sort=True, minimal=True)
            o.clean_vector()
            if fam != "4.0":
                o.temporal_vector()
                o.environmental_vector()
            hash(o)
            n += 1
    return n


HEAVY = ("12,000 distinct vectors of all versions built, scored and serialised", lambda: heavy(), False)


def probe_inputs():
    vecs = [V2A, V2B, "AV:N/AC:L/Au:N/C:C/I:C/A:C/E:ND/TD:N", "A:P/I:P/C:P/Au:N/AC:L/AV:N",
            V30, V31, V31B, V31B_RE, "CVSS:3.1/" + "AV:N/AC:L/PR:N/UI:N/S:U/C:N/I:N/A:N",
            "CVSS:3.0/AV:N/AC:L/PR:L/UI:N/S:U/C:H/I:L/A:N/MS:C",
            V4A, V4B, "CVSS:4.0/AV:N/AC:L/AT:N/PR:N/UI:N/VC:N/VI:N/VA:N/SC:N/SI:N/SA:N",
            "CVSS:4.0/AV:A/AC:L/AT:N/PR:N/UI:N/VC:H/VI:L/VA:N/SC:N/SI:N/SA:N/E:P/AR:M/S:P",
            "AV:N/AC:L/E:F", "CVSS:3.1/AV:P/S:C", "CVSS:4.0/AV:P/MSI:S", "", "AV:N/AC:L/Au:N/C:P/I:P/A:P/AV:N",
            "CVSS:3.1/AV:N/AC:L/PR:N/UI:N/S:U/C:H/I:H/A:H/MA:Q",
            # the very strings (and fields) the history operations get rejected with, and other
            # vectors carrying the same rejected fields
            V2A + "/AV:L", V31 + "/MA:Q", V4B + "/ZZ:1", V4A + "/ZZ:1", V31B + "/MA:Q", V2B + "/AV:L",
            ] + EDGE3 + EDGE2 + EDGE4 + [EDGE3[1] + "/E:X", "CVSS:3.1/A:N/I:L/C:H/S:C/UI:R/PR:H/AC:L/AV:N", EDGE2[1] + "/RL:ND",
            "ZZ:1", "CVSS:4.0/ZZ:1", "CVSS:3.1/MA:Q", "AV:N/AC:L/E:F/CR:H", "CVSS:3.1/AV:P/S:C/MS:U/E:U",
            "CVSS:4.0/AV:P/MSI:S/E:U/CR:L", V4A + "/U:Purple", V4A + "/E:F"]
    for fam in T.FAMILIES:
        vecs += [s for s, _ in observe.covering_seeds(fam, 12)]
    return vecs


_PROBE_INPUTS = None


def run_probe():
    """The fixed probe: ~70 strings x 3 classes, RH notation, texts, a builder run, two CLI runs."""
    global _PROBE_INPUTS
    import cvss
    if _PROBE_INPUTS is None:
        _PROBE_INPUTS = probe_inputs()
    out = []
    for v in _PROBE_INPUTS:
        for c in (cvss.CVSS2, cvss.CVSS3, cvss.CVSS4):
            out.append(probe.J(probe.obs_vector(c, v)))
    for t in ("7.5", "4.4", "x", "10.0"):
        for v in (V2A, V2B, V31, V4A):
            for c in (cvss.CVSS2, cvss.CVSS3, cvss.CVSS4):
                out.append(probe.J(probe.obs_rh(c, t + "/" + v)))
    for text in (TEXT, V2B + " " + V31B_RE + " " + V31B, "nothing here", V4A):
        out.append(probe.J(probe.obs_text(text)))
    # answer streams made of the legal tokens of ALL versions: every question skips what it must
    # refuse, so a value leaking in from another version (or an earlier session) shows in the result
    union = []
    for fam in ("3.1", "4.0", "2"):
        for m, vals in T.METRICS[fam].items():
            for v in vals:
                if v not in union:
                    union.append(v)
    for fam in T.FAMILIES:
        n = len(T.METRICS[fam]) + 1
        out.append(probe.J(_builder(fam, True, (union[::-1] + union) * n)))
        out.append(probe.J(_builder(fam, False, [t.lower() for t in union] * n)))
    out.append(probe.J(_builder("3.0", True, ["N", "L", "N", "N", "U", "H", "H", "H"] + [""] * 14)))
    out.append(probe.J(_builder("4.0", False, ["N", "L", "N", "N", "N", "H", "H", "H", "H", "H", "H"])))
    out.append(probe.J(probe.obs_cli(["-j", "-v", V31])))
    out.append(probe.J(probe.obs_cli(["-2", "-v", V2B])))
    return hashlib.sha256("\n".join(out).encode("utf-8")).hexdigest(), len(out)


def distinctive_context():
    """Histories run under a non-default ambient context so that a library that replaces or edits
    the caller's context shows in the ambient snapshot (under the default context a leak of an
    equal-valued context would be invisible)."""
    decimal.setcontext(decimal.Context(prec=33, rounding=decimal.ROUND_05UP))


def pristine():
    distinctive_context()
    return {"probe": run_probe()[0], "tables": opseq.digest(opseq.constants_snapshot()),
            "ambient": opseq.ambient_snapshot()}


def run_history(names, base):
    """Run the ops; return why-or-None."""
    _LL.clear()
    distinctive_context()
    byname = dict((n, (f, cli)) for n, f, cli in OPS + [HEAVY])
    for n in names:
        f, is_cli = byname[n]
        out, err = io.StringIO(), io.StringIO()
        old = sys.stdout, sys.stderr
        sys.stdout, sys.stderr = out, err
        try:
            try:
                f()
            except BaseException as e:  # noqa
                sys.stdout, sys.stderr = old
                return "operation %r raised %s: %s" % (n, type(e).__name__, e)
        finally:
            sys.stdout, sys.stderr = old
        if not is_cli and (out.getvalue() or err.getvalue()):
            return "%r wrote to stdout/stderr: %r" % (n, (out.getvalue() + err.getvalue())[:120])
    tb = opseq.digest(opseq.constants_snapshot())
    if tb != base["tables"]:
        return "the package's constant tables changed"
    amb = opseq.ambient_snapshot()
    if amb != base["ambient"]:
        diff = [k for k in amb if amb[k] != base["ambient"][k]]
        return "process-global state changed: %s" % ", ".join(diff)
    if run_probe()[0] != base["probe"]:
        return "the probe's results differ from those of a pristine process"
    return None


_BASE = None


def _hist_batch(batch):
    out = []
    for h in batch:
        why = run_history(h, _BASE)
        out.append(why)
        if why:
            break   # the process may be contaminated from here on
    return out


def _hist_single(h):
    return run_history(h, _BASE)


def fresh_pool_map(func, items, nproc=None):
    """Each item runs in a *fresh* fork of the (pristine) parent."""
    ctx = multiprocessing.get_context("fork")
    pool = ctx.Pool(nproc or core.NPROC, maxtasksperchild=1)
    try:
        return pool.map(func, items, 1)
    finally:
        pool.terminate()
        pool.join()


def explore_histories(ctx, res, depth):
    global _BASE
    _BASE = in_fork(pristine)          # computed in a fresh fork: the parent stays cold
    if in_fork(pristine) != _BASE:
        raise core.HarnessError("the probe is not deterministic across fresh processes")
    names = [n for n, _, _ in OPS]
    hs = []
    for k in range(1, depth + 1):
        hs += [list(p) for p in itertools.product(names, repeat=k)]
    # scale: the heavy operation alone, twice, and before / after every other operation
    hv = HEAVY[0]
    hs += [[hv], [hv, hv]] + [[n, hv] for n in names] + [[hv, n] for n in names[:1]]
    hs = ctx.rot(hs)
    # every history in its own fresh fork of the pristine parent: its verdict is a function of the
    # history alone (the probe that follows it is part of what runs in that process)
    outs = fresh_pool_map(_hist_single, hs)
    failing = 0
    for h, why in zip(hs, outs):
        if why:
            failing += 1
            res.add_violation({"what": "after the history %s: %s" % (h, why), "kind": "history",
                               "input": h, "signature": {"kind": "history"}})
    return {"histories": len(hs), "histories_run": len(hs), "ops": len(names), "depth": depth,
            "probe_cases": in_fork(lambda: run_probe()[1]), "failing_histories": failing}


# =============================================================================== (2) schedules

def body_vec(cls, vec, size="long"):
    def body():
        o = _cls(cls)(vec)
        if size == "short":
            return json.dumps([o.scores(), o.clean_vector()])
        fam = T.family_of(int(cls[-1]), vec)
        obs = observe.observation(fam, o)
        obs["json"] = [json.dumps(o.as_json(sort=s, minimal=m), sort_keys=True) for s in (False, True)
                       for m in (False, True)]
        obs["eq"] = (o == _cls(cls)(vec))
        return json.dumps(obs, sort_keys=True)
    return body


def body_text(text):
    def body():
        from cvss.parser import parse_cvss_from_text
        return json.dumps([[type(o).__name__, o.vector, o.scores()] for o in parse_cvss_from_text(text)])
    return body


def body_err(cls, vec):
    def body():
        try:
            _cls(cls)(vec)
        except Exception as e:  # noqa
            return "%s: %s" % (type(e).__name__, e)
        return "accepted"
    return body


GROUPS = [
    ("v3 different scope / modified scope", "v3",
     [("CVSS3", "CVSS:3.1/AV:N/AC:L/PR:L/UI:N/S:C/C:H/I:H/A:H/MS:U/MPR:H/E:F"),
      ("CVSS3", "CVSS:3.1/AV:L/AC:H/PR:H/UI:R/S:U/C:L/I:N/A:L/MS:C/MPR:L/CR:H")]),
    ("v3.0 vs v3.1 on the same body", "v3", [("CVSS3", V30), ("CVSS3", V31)]),
    ("identical v3 input in both threads", "v3", [("CVSS3", V31), ("CVSS3", V31)]),
    ("v2 vs v3", "v3", [("CVSS2", V2B), ("CVSS3", V31B_RE)]),
    ("v2 vs v2", "v3", [("CVSS2", V2B), ("CVSS2", "AV:N/AC:L/Au:N/C:C/I:C/A:C/E:F/RL:OF/RC:C/CDP:H/TD:H/CR:M/IR:M/AR:H")]),
    ("v3 valid vs v3 rejected after parsing fields", "v3", [("CVSS3", V31), ("ERR3", V31B + "/MA:Q")]),
    ("text extraction x 2", "v3", [("TEXT", TEXT), ("TEXT", V2B + " " + V31B_RE + " " + V30)]),
    ("v4 in different macrovectors", "v4", [("CVSS4", V4A), ("CVSS4", V4B)]),
    ("v4 vs v3", "v4", [("CVSS4", V4B), ("CVSS3", V30)]),
    ("v2, v3, v4 (three threads)", "triple", [("CVSS2", V2A), ("CVSS3", V31), ("CVSS4", V4B)]),
]


def make_bodies(spec, size="long"):
    out = []
    for kind, arg in spec:
        if kind == "TEXT":
            out.append(body_text(arg if size == "long" else arg[:arg.index(",") if "," in arg else len(arg) // 2]))
        elif kind == "ERR3":
            out.append(body_err("CVSS3", arg))
        else:
            out.append(body_vec(kind, arg, size))
    return out


_PLANS = {}
_SEQ = {}
_TBASE = None


def _plan_list(gi, size, bound, gran, stride):
    key = (gi, size, bound, gran, stride)
    if key not in _PLANS:
        bodies = make_bodies(GROUPS[gi][2], size)
        prefix = os.path.join(core.REPO, "cvss") + os.sep
        npts = in_fork(lambda: sched.count_points(bodies, gran, prefix))
        _PLANS[key] = (list(sched.plans(npts, bound, stride)), npts)
    return _PLANS[key]


_HOT = [False]
_FRESH = [0]


def respell(kind, vec, n):
    """The same vector as a string never seen before in this process: absent optional metrics
    written out as Not Defined, chosen by the bits of n (the short bodies' observations - scores
    and cleaned vector - do not depend on that)."""
    major = {"CVSS2": 2, "CVSS3": 3, "CVSS4": 4}.get(kind)
    if major is None or T.classify_class(major, vec) != "ACCEPT":
        return vec
    fam = T.family_of(major, vec)
    present = set(f.split(":")[0] for f in vec[len(T.PREFIX[fam]):].split("/"))
    absent = [m for m in T.OPTIONAL[fam] if m not in present]
    extra = ["%s:%s" % (m, T.ND[fam]) for b, m in enumerate(absent) if n >> b & 1]
    return vec + "".join("/" + x for x in extra)


LAST_SPEC = [None]


def run_schedule(gi, size, plan, gran, hot=False, spec=None):
    if hot and not _HOT[0]:
        heavy()                       # the thread that forks the workers' threads has a long past
        _HOT[0] = True
    given = spec is not None
    spec = [tuple(x) for x in spec] if given else GROUPS[gi][2]
    if hot and size == "short" and not given:
        # every execution constructs strings that are new to the process (whatever the library
        # remembers per string is cold for them although the process is hot)
        _FRESH[0] += 1
        spec = [(k, respell(k, v, _FRESH[0] * 7 + i)) for i, (k, v) in enumerate(spec)]
    LAST_SPEC[0] = [list(x) for x in spec]
    bodies = make_bodies(spec, size)
    if (gi, size) not in _SEQ:
        # the sequential baseline always comes from the group's own strings: the strings of a hot
        # execution must be new to the process when the threads meet them
        _SEQ[(gi, size)] = [("ok", b()) for b in make_bodies(GROUPS[gi][2], size)]
    prefix = os.path.join(core.REPO, "cvss") + os.sep
    ex = sched.Execution(bodies, plan, gran, prefix)
    got = ex.run()
    if ex.stuck():
        return ex.stuck(), ex
    if got != _SEQ[(gi, size)]:
        for t, (g, w) in enumerate(zip(got, _SEQ[(gi, size)])):
            if g != w:
                return "thread %d observes %s, but %s when it runs alone" % (t, str(g)[:300], str(w)[:300]), ex
    return None, ex


def _sched_task(t):
    gi, size, bound, gran, stride, lo, hi = t[:7]
    hot = len(t) > 7 and t[7]
    plans, npts = _plan_list(gi, size, bound, gran, stride)
    acc = sweep.new_acc()
    if hot:
        run_schedule(gi, size, plans[lo], gran, True)
    base_tables = opseq.digest(opseq.constants_snapshot())
    for plan in plans[lo:hi]:
        acc["n"] += 1
        why, ex = run_schedule(gi, size, plan, gran, hot)
        used = LAST_SPEC[0]
        acc["calls"] += sum(ex.points)
        acc["cmp"] += len(ex.bodies)
        if why is None and acc["n"] % 50 == 1 and opseq.digest(opseq.constants_snapshot()) != base_tables:
            why = "the package's constant tables changed"
        if why:
            # replay the very same schedule twice: identical observations are required before reporting
            again = [run_schedule(gi, size, plan, gran, hot)[0] for _ in range(2)]
            sweep.bad(acc, {"what": "%s, schedule %s (%s granularity)%s: %s" % (
                GROUPS[gi][0], plan, gran, " in a process whose main thread first built 12,000 objects" if hot else "", why),
                            "kind": "schedule", "input": {"group": gi, "size": size, "plan": [list(p) for p in plan],
                                                          "gran": gran, "hot": bool(hot), "spec": used if hot else None},
                            "deterministic": again[0] == again[1],
                            "signature": {"kind": "schedule"}})
        else:
            acc["outcomes"].add((gi, tuple(r[1] for r in ex.result)))
            if bound:
                acc["nontrivial"] += 1
    if not acc["samples"] and hi > lo:
        acc["samples"].append({"threads": GROUPS[gi][2], "plan": plans[lo], "granularity": gran})
    return acc


def explore_schedules(ctx, res):
    tasks = []
    summary = {}
    for gi, (name, klass, spec) in enumerate(GROUPS):
        # (body size, preemption bound, granularity, stride over switch points)
        levels = [("short", 0, "line", 1), ("short", 1, "line", 1)]
        if klass == "v3":
            if ctx.thorough:
                levels += [("short", 2, "line", 1) if gi in (0, 1) else ("short", 2, "call", 1),
                           ("long", 1, "line", 1), ("long", 2, "call", 3)]
                if gi in (0, 3):
                    levels.append(("short", 1, "opcode", 1))
            else:
                levels += [("short", 2, "call", 1), ("long", 1, "line", 4)]
        elif klass == "v4":
            if ctx.thorough:
                levels += [("short", 2, "call", 2), ("long", 1, "line", 1)]
            else:
                levels += [("short", 2, "call", 4), ("long", 1, "line", 8)]
        else:
            levels += [("long", 1, "line", 1 if ctx.thorough else 8)]
        for size, bound, gran, stride in levels:
            plans, npts = _plan_list(gi, size, bound, gran, stride)
            summary["%s | %s bodies, bound %d, %s%s" % (name, size, bound, gran, "/%d" % stride if stride > 1 else "")] = {
                "schedules": len(plans), "points_per_thread": npts}
            step = max(20, len(plans) // 64)
            for lo in range(0, len(plans), step):
                tasks.append((gi, size, bound, gran, stride, lo, min(len(plans), lo + step)))
    accs = core.pool_map(_sched_task, ctx.rot(tasks))
    # hot: the same groups (long bodies; bound 0 and, strided, bound 1) in processes whose main
    # thread has a long past - a separate pool, so that no other task runs in a hot worker
    hot_tasks = []
    for gi, (name, klass, spec) in enumerate(GROUPS):
        for size, bound, stride in (("long", 0, 1), ("long", 1, 16 if ctx.thorough else 64),
                                    ("short", 1, 1 if (ctx.thorough or klass == "v3") else 4)):
            plans, npts = _plan_list(gi, size, bound, "line", stride)
            summary["%s | hot process, %s bodies, bound %d, line/%d" % (name, size, bound, stride)] = {
                "schedules": len(plans), "points_per_thread": npts}
            step = max(50, len(plans) // 4)
            for lo in range(0, len(plans), step):
                hot_tasks.append((gi, size, bound, "line", stride, lo, min(len(plans), lo + step), True))
    accs += core.pool_map(_sched_task, hot_tasks)
    tot = sweep.merge(accs)
    for c in tot["bad"]:
        res.add_violation(c)
    return {"schedules": tot["n"], "scheduling_points_executed": tot["calls"],
            "distinct_outcomes": len(tot["outcomes"]), "groups": summary,
            "violating": tot["nbad"]}, tot


# =============================================================================== (2b) cold / shared-object schedules
# Every schedule of these groups runs in a *fresh fork* of the pristine worker, so that lazily
# built globals (memo tables, caches) are cold in every execution; the "shared" groups let two
# threads call accessors on ONE freshly built object (lazy per-instance caches).

V4B_SAME_MACRO = "CVSS:4.0/AV:L/AC:H/AT:P/PR:L/UI:A/VC:L/VI:N/VA:L/SC:N/SI:L/SA:N/E:U/CR:L/IR:L/MSI:S/MAV:N"


def _acc_small(o):
    return json.dumps([o.clean_vector()])


def _acc_medium(o):
    out = [o.clean_vector(), o.rh_vector(), o.scores(), o.severities(),
           json.dumps(o.as_json(sort=True, minimal=True), sort_keys=True)]
    if hasattr(o, "temporal_vector"):
        out += [o.temporal_vector(), o.environmental_vector()]
    return json.dumps(out)


COLD_GROUPS = [
    # (name, kind, spec, levels [(bound, granularity, stride)])
    ("cold: same v4 vector in both threads", "new", [("CVSS4", V4B), ("CVSS4", V4B)], [(1, "line", 1)]),
    ("cold: two v4 vectors of one macrovector", "new", [("CVSS4", V4B), ("CVSS4", V4B_SAME_MACRO)], [(1, "line", 1)]),
    ("cold: same v3 vector in both threads", "new", [("CVSS3", V31), ("CVSS3", V31)], [(1, "line", 1), (2, "call", 1)]),
    ("cold: v3.0 and v3.1, same body", "new", [("CVSS3", V30), ("CVSS3", V31)], [(1, "line", 1)]),
    ("cold: same v2 vector in both threads", "new", [("CVSS2", V2B), ("CVSS2", V2B)], [(1, "line", 1), (2, "call", 1)]),
    ("cold: same text in both threads", "new", [("TEXT", TEXT), ("TEXT", TEXT)], [(1, "line", 2)]),
    # within-line races (a read-modify-write written on one line): preemption between bytecode instructions
    ("cold: same v3 vector in both threads, between instructions", "new", [("CVSS3", V31), ("CVSS3", V31)], [(1, "opcode", 9)]),
    ("cold: same v2 vector in both threads, between instructions", "new", [("CVSS2", V2B), ("CVSS2", V2B)], [(1, "opcode", 9)]),
    ("cold: same v4 vector in both threads, between instructions", "new", [("CVSS4", V4B), ("CVSS4", V4B)], [(1, "opcode", 37)]),
    ("cold: same v4 vector in three threads", "new", [("CVSS4", V4B), ("CVSS4", V4B), ("CVSS4", V4B)], [(1, "line", 1)]),
    ("cold: same v3 vector in three threads", "new", [("CVSS3", V31), ("CVSS3", V31), ("CVSS3", V31)], [(1, "line", 1)]),
    ("cold: same v2 vector in three threads", "new", [("CVSS2", V2B), ("CVSS2", V2B), ("CVSS2", V2B)], [(1, "line", 1)]),
    ("shared CVSS2 object, small accessor set", "shared", ("CVSS2", V2B, "small"), [(1, "line", 1), (2, "line", 1)]),
    ("shared CVSS3 object, small accessor set", "shared", ("CVSS3", V31, "small"), [(1, "line", 1), (2, "line", 1)]),
    ("shared CVSS4 object, small accessor set", "shared", ("CVSS4", V4B, "small"), [(1, "line", 1), (2, "line", 1)]),
    ("shared CVSS2 object, all accessors", "shared", ("CVSS2", V2B, "medium"), [(1, "line", 1)]),
    ("shared CVSS3 object, all accessors", "shared", ("CVSS3", V30, "medium"), [(1, "line", 1)]),
    ("shared CVSS4 object, all accessors", "shared", ("CVSS4", V4A, "medium"), [(1, "line", 1)]),
]


def cold_bodies(gi):
    name, kind, spec, _ = COLD_GROUPS[gi]
    if kind == "new":
        return make_bodies(spec, "short")
    cls, vec, size = spec
    o = _cls(cls)(vec)
    f = _acc_small if size == "small" else _acc_medium
    # the third body runs after both threads are done (it is never preempted: plans only name
    # threads 0 and 1, the scheduler appends it as a run-to-completion segment): the object must
    # still behave like a fresh one
    return [lambda: f(o), lambda: f(o), lambda: _acc_medium(o) + "|" + json.dumps(hash(o) == hash(_cls(cls)(vec)))]


def cold_alone(gi):
    """Each body alone, each in a cold process (for shared groups: on a fresh object)."""
    n = 3 if COLD_GROUPS[gi][1] == "shared" else len(COLD_GROUPS[gi][2])
    out = []
    for t in range(n):
        out.append(in_fork(lambda t=t: ["ok", cold_bodies(gi)[t]()]))
    return out


def cold_points(gi, gran):
    prefix = os.path.join(core.REPO, "cvss") + os.sep
    n = 2 if COLD_GROUPS[gi][1] == "shared" else len(COLD_GROUPS[gi][2])
    return in_fork(lambda: sched.count_points(cold_bodies(gi)[:n], gran, prefix))


def cold_run(gi, plan, gran):
    prefix = os.path.join(core.REPO, "cvss") + os.sep

    def go():
        ex = sched.Execution(cold_bodies(gi), plan, gran, prefix)
        res = ex.run()
        return [[list(r) for r in res], ex.points, ex.stuck()]
    return in_fork(go)


_COLD = {}


# A cold execution pays for everything the tree does on first use, under the tracer and in a fresh fork. On
# the pinned tree the largest cold group has 3,618 plans. A tree that builds a table on first use has tens of
# thousands of scheduling points per thread; its plan list is thinned (larger stride, stated in the evidence)
# to at most this many plans per group and level, so that the check ends in minutes there too. No effect
# on the pinned tree.
COLD_CAP = {"quick": 5000, "thorough": 60000}
_COLD_TIER = ["quick"]
_COLD_STRIDE = {}


def _cold_plans(gi, bound, gran, stride):
    key = (gi, bound, gran, stride)
    if key not in _COLD:
        npts = cold_points(gi, gran)
        cap = COLD_CAP[_COLD_TIER[0]]
        eff = stride
        plans = list(sched.plans(npts, bound, eff))
        while len(plans) > cap:
            eff = eff * 2 if bound == 1 else eff + max(1, eff // 2)
            plans = list(sched.plans(npts, bound, eff))
        _COLD_STRIDE[key] = eff
        _COLD[key] = (plans, npts, cold_alone(gi))
    return _COLD[key]


def cold_judge(gi, plan, gran, alone):
    res, points, stuck = cold_run(gi, plan, gran)
    if stuck:
        return stuck, points
    for t, (g, w) in enumerate(zip(res, alone)):
        if list(g) != list(w):
            return "thread %d observes %s, but %s when it runs alone" % (t, str(g)[:300], str(w)[:300]), points
    return None, points


def _cold_task(t):
    gi, bound, gran, stride, lo, hi = t
    plans, npts, alone = _cold_plans(gi, bound, gran, stride)
    acc = sweep.new_acc()
    for plan in plans[lo:hi]:
        acc["n"] += 1
        why, points = cold_judge(gi, plan, gran, alone)
        acc["calls"] += sum(points)
        acc["cmp"] += 2
        if why:
            again = [cold_judge(gi, plan, gran, alone)[0] for _ in range(2)]
            sweep.bad(acc, {"what": "%s, schedule %s (%s granularity): %s" % (COLD_GROUPS[gi][0], plan, gran, why),
                            "kind": "cold_schedule", "input": {"group": gi, "plan": [list(p) for p in plan], "gran": gran},
                            "deterministic": again[0] == again[1], "signature": {"kind": "schedule"}})
        else:
            acc["nontrivial"] += 1
    if not acc["samples"] and hi > lo:
        acc["samples"].append({"group": COLD_GROUPS[gi][0], "plan": plans[lo], "granularity": gran})
    return acc


def explore_cold_schedules(ctx, res):
    tasks, summary = [], {}
    _COLD_TIER[0] = "thorough" if ctx.thorough else "quick"
    for gi, (name, kind, spec, levels) in enumerate(COLD_GROUPS):
        for bound, gran, stride in levels:
            if not ctx.thorough:
                if bound == 2:
                    stride = 3 if "CVSS4" in name else 2
                elif "one macrovector" in name:
                    stride = 2
                elif "three threads" in name:
                    stride = 3
                elif gran == "opcode":
                    stride *= 4
            plans, npts, alone = _cold_plans(gi, bound, gran, stride)
            eff = _COLD_STRIDE.get((gi, bound, gran, stride), stride)
            summary["%s | bound %d, %s%s" % (name, bound, gran, "/%d" % eff if eff > 1 else "")] = {
                "schedules": len(plans), "points_per_thread": npts}
            if eff != stride:
                summary["%s | bound %d, %s%s" % (name, bound, gran, "/%d" % eff)]["thinned_from_stride"] = stride
            step = max(10, len(plans) // 48)
            for lo in range(0, len(plans), step):
                tasks.append((gi, bound, gran, stride, lo, min(len(plans), lo + step)))
    accs = core.pool_map(_cold_task, ctx.rot(tasks))
    tot = sweep.merge(accs)
    for c in tot["bad"]:
        res.add_violation(c)
    return {"schedules": tot["n"], "scheduling_points_executed": tot["calls"], "groups": summary,
            "violating": tot["nbad"]}, tot


# =============================================================================== (3) hash seeds

def explore_hashseeds(ctx, res):
    ref = config.Config("hashseed-0", sys.executable, "0")
    seeds = ["1", "2", "3", "42", str(2 ** 32 - 1), str((ctx.seed * 7919 + 13) % (2 ** 32)), "1000003"]
    cfgs = [config.Config("hashseed-" + s, sys.executable, s) for s in seeds]
    results, stats = config.compare(ctx, ref, cfgs, ctx.tier)
    for r in results:
        if r["kind"] == "crash":
            what = "under PYTHONHASHSEED=%s the probe fails: %s" % (r["config"]["hashseed"], r["stderr"][-300:])
            sig = {"kind": "crash"}
        else:
            what = "under PYTHONHASHSEED=%s the result differs from seed 0: %s | got %s" % (
                r["config"]["hashseed"], r["ref_line"][:300], r["cfg_line"][:300])
            sig = {"kind": "diff", "section": r["section"]}
        res.add_violation(dict(r, what=what, signature=sig, tier=ctx.tier, sub="hashseed"))
    return {"seeds": ["0"] + seeds, "cases_per_seed": stats["cases"], "comparisons": stats["comparisons"]}


# =============================================================================== (4) decimal contexts

ROUNDINGS = ["ROUND_CEILING", "ROUND_DOWN", "ROUND_FLOOR", "ROUND_HALF_DOWN", "ROUND_HALF_EVEN",
             "ROUND_HALF_UP", "ROUND_UP", "ROUND_05UP"]
_DEC_VECS = None


def dec_vectors():
    global _DEC_VECS
    if _DEC_VECS is None:
        out = []
        req = spaces.v3_req_all()
        te3 = spaces.v3_temporal_effective()
        for fam in ("3.0", "3.1"):
            for fb, db in spaces.v3_base_all():
                for fr, dr in req:
                    out.append((fam, T.PREFIX[fam] + fb + "/" + fr + "/E:P/RL:T"))
                # every temporal product of every base score (the temporal equation is where an
                # ambient rounding mode would enter)
                for ft, dt in te3:
                    out.append((fam, T.PREFIX[fam] + fb + "/" + ft))
            doms = spaces._domains(fam)
            for k in range(15000):
                a = spaces.interaction_row(fam, k, doms)
                out.append((fam, T.spell(fam, a, [m for m, _ in doms if m in a])))
        te2 = spaces.v2_temporal_effective()
        for fb, _ in spaces.v2_base_all():
            for ft, _ in te2:
                out.append(("2", fb + "/" + ft))
        for fam in ("2", "4.0"):
            doms = spaces._domains(fam)
            for k in range(15000 if fam == "2" else 8000):
                a = spaces.interaction_row(fam, k, doms)
                out.append((fam, T.spell(fam, a, [m for m, _ in doms if m in a])))
        for b in spaces.v2_blocks("quick")[1:3]:
            for fa, _ in b.A:
                for fb, _ in b.B[::3]:
                    for fc, _ in b.C[::5]:
                        out.append(("2", "/".join(x for x in (fa, fb, fc) if x)))
        blk = spaces.v4_blocks("quick", "short", ("min", "min"))[0]
        for fa, _ in blk.A:
            for fb, _ in blk.B[::9]:
                for fc, _ in blk.C:
                    out.append(("4.0", T.PREFIX["4.0"] + "/".join(x for x in (fa, fb, fc) if x)))
        _DEC_VECS = out
    return _DEC_VECS


def _dec_task(t):
    prec, rounding = t
    if prec is not None:
        decimal.setcontext(decimal.Context(prec=prec, rounding=getattr(decimal, rounding)))
    before = opseq.ambient_snapshot()["decimal"]
    h = hashlib.sha256()
    first = {}
    vs = dec_vectors()
    chunk_digests = []
    for i in range(0, len(vs), 2000):
        hh = hashlib.sha256()
        for fam, v in vs[i:i + 2000]:
            hh.update(_dec_obs(fam, v).encode("ascii", "replace"))
        chunk_digests.append(hh.hexdigest())
    # rejected constructions as well: the context must survive every error path
    import cvss
    from cvss.parser import parse_cvss_from_text
    for cls in (cvss.CVSS2, cvss.CVSS3, cvss.CVSS4):
        for bad in ("", "AV:N", V2A + "/AV:L", V31 + "/MA:Q", "CVSS:3.1/AV:P/S:C", V4B + "/ZZ:1", "CVSS:4.0/AV:P"):
            _try(lambda: cls(bad))
            _try(lambda: cls.from_rh_vector("1.0/" + bad))
            _try(lambda: cls.from_rh_vector("x/" + bad))
    parse_cvss_from_text(TEXT + " " + V31 + "/MA:Q AV:N/AC:L/Au:N/C:P/I:P/A:Q")
    after = opseq.ambient_snapshot()["decimal"]
    return chunk_digests, before == after, after


TRAP_SETS = [["FloatOperation"], ["Inexact"], ["Rounded"], ["Subnormal", "Underflow", "Clamped"],
             ["FloatOperation", "Inexact", "Rounded"], []]


def _dec_traps_task(t):
    """The caller's context traps more (or fewer) signals than the default one. What the library
    computes or raises there is not the question (the statement's contexts are the default traps);
    the caller's context must come out of every call exactly as it went in."""
    names, rounding = t
    base = [decimal.InvalidOperation, decimal.DivisionByZero, decimal.Overflow] if names else []
    decimal.setcontext(decimal.Context(prec=28, rounding=getattr(decimal, rounding),
                                       traps=base + [getattr(decimal, n) for n in names]))
    before = opseq.ambient_snapshot()["decimal"]
    import cvss
    from cvss.parser import parse_cvss_from_text
    n = 0
    for fam, v in dec_vectors()[::997] + [(f, s) for f in T.FAMILIES for s, _ in observe.covering_seeds(f, 12)]:
        cls = observe.cls_of(fam)
        for f in (lambda: cls(v), lambda: observe.observation(fam, cls(v)), lambda: cls(v).as_json(sort=True, minimal=True),
                  lambda: cls.from_rh_vector("0.0/" + v), lambda: cls.from_rh_vector(cls(v).rh_vector())):
            _try(f)
            n += 1
            now = opseq.ambient_snapshot()["decimal"]
            if now != before:
                return n, False, now, [fam, v]
    for cls in (cvss.CVSS2, cvss.CVSS3, cvss.CVSS4):
        for bad in ("", "AV:N", V2A + "/AV:L", V31 + "/MA:Q", V4B + "/ZZ:1"):
            _try(lambda: cls(bad))
            _try(lambda: cls.from_rh_vector("x/" + bad))
    _try(lambda: parse_cvss_from_text(TEXT))
    now = opseq.ambient_snapshot()["decimal"]
    return n, now == before, now, None


def _dec_obs(fam, v):
    try:
        return repr(observe.cls_of(fam)(v).scores())
    except Exception as e:  # noqa
        return "raised %s" % type(e).__name__


def dec_scores(t, chunk):
    prec, rounding = t
    if prec is not None:
        decimal.setcontext(decimal.Context(prec=prec, rounding=getattr(decimal, rounding)))
    vs = dec_vectors()[chunk * 2000:(chunk + 1) * 2000]
    return [(fam, v, _dec_obs(fam, v)) for fam, v in vs]


def _dec_first_diff(t):
    ctxspec, chunk = t
    a = dec_scores((None, None), chunk)
    b = dec_scores(ctxspec, chunk)
    for x, y in zip(a, b):
        if repr(x) != repr(y):      # repr: -0.0 and 0.0 print differently (the digests use repr too)
            return x, y
    return None


def explore_decimal(ctx, res):
    if ctx.thorough:
        ctxs = [(p, r) for p in (28, 29, 34, 50, 100) for r in ROUNDINGS]
    else:
        ctxs = [(28, r) for r in ROUNDINGS] + [(29, "ROUND_HALF_EVEN"), (50, "ROUND_DOWN"), (100, "ROUND_UP")]
    dec_vectors()
    outs = fresh_pool_map(_dec_task, [(None, None)] + ctxs)
    ref = outs[0][0]
    for spec, (dg, unchanged, after) in zip(ctxs, outs[1:]):
        if not unchanged:
            res.add_violation({"what": "the ambient decimal context (prec=%d, %s) is modified by the library: now %s" % (
                spec[0], spec[1], after), "kind": "decimal_ctx", "input": list(spec),
                "signature": {"kind": "decimal_ctx"}})
        for ci, (x, y) in enumerate(zip(ref, dg)):
            if x != y:
                fd = fresh_pool_map(_dec_first_diff, [(spec, ci)], 1)[0]
                if fd is None:
                    raise core.HarnessError("decimal chunk digest differs but its cases do not")
                res.add_violation({"what": "under decimal context prec=%d rounding=%s %s(%r).scores() is %r, "
                                   "but %r under the default context" % (
                                       spec[0], spec[1], T.CLASSNAME[fd[1][0]], fd[1][1], fd[1][2], fd[0][2]),
                                   "kind": "decimal", "input": {"ctx": list(spec), "family": fd[1][0], "vector": fd[1][1]},
                                   "signature": {"kind": "decimal"}})
                break
    tspecs = [(names, r) for names in TRAP_SETS for r in ("ROUND_HALF_EVEN", "ROUND_DOWN")]
    for spec, (n, unchanged, after, where) in zip(tspecs, fresh_pool_map(_dec_traps_task, tspecs)):
        if not unchanged:
            res.add_violation({"what": "the caller's decimal context (traps %s, %s) is modified by the library%s: now %s" % (
                spec[0] or "none", spec[1], " while handling %s(%r)" % (T.CLASSNAME[where[0]], where[1]) if where else "", after),
                "kind": "decimal_traps", "input": [spec[0], spec[1]], "signature": {"kind": "decimal_ctx"}})
    # ambient context set *before import* as well: the probe program in a subprocess
    cfg0 = config.Config("decimal-default", sys.executable, "0")
    sub = [config.Config("decimal-%d-%s" % (p, r), sys.executable, "0", (p, r))
           for p, r in ((28, "ROUND_UP"), (28, "ROUND_DOWN"), (50, "ROUND_CEILING"), (100, "ROUND_05UP"))]
    results, stats = config.compare(ctx, cfg0, sub, "quick", sections=["vectors", "rh", "cli"])
    for r in results:
        what = "with the decimal context %s set before import: %s" % (
            r["config"]["decimal"], r.get("stderr", "")[-200:] or ("%s | got %s" % (r["ref_line"][:300], r["cfg_line"][:300])))
        res.add_violation(dict(r, what=what, signature={"kind": "decimal_before_import"}, tier="quick",
                               sub="decimal", sections=["vectors", "rh", "cli"]))
    return {"contexts": len(ctxs), "vectors_per_context": len(dec_vectors()),
            "contexts_set_before_import": len(sub), "cases_before_import": stats["cases"]}


# =============================================================================== (5) silence

def _silence_task(chunk):
    """Every library entry point that is not the CLI / interactive builder, over valid inputs and
    every error path of the C04 edit neighbourhood, with stdout/stderr captured."""
    import cvss
    from cvss.parser import parse_cvss_from_text
    out, err = io.StringIO(), io.StringIO()
    old = sys.stdout, sys.stderr
    sys.stdout, sys.stderr = out, err
    n = 0
    first = None
    try:
        for s in chunk:
            before = out.tell() + err.tell()
            for cls in (cvss.CVSS2, cvss.CVSS3, cvss.CVSS4):
                n += 1
                try:
                    o = cls(s)
                except Exception:  # noqa
                    o = None
                if o is not None:
                    try:
                        _use(o)
                    except Exception:  # noqa - totality of accessors is C18's business, silence is ours
                        pass
                try:
                    cls.from_rh_vector("5.0/" + s)
                except Exception:  # noqa
                    pass
                try:
                    cls.from_rh_vector(s)
                except Exception:  # noqa
                    pass
            try:
                parse_cvss_from_text(s + " " + s)
            except Exception:  # noqa
                pass
            if first is None and out.tell() + err.tell() != before:
                first = s
    finally:
        sys.stdout, sys.stderr = old
    return n, first, (out.getvalue() + err.getvalue())[:200]


def explore_silence(ctx, res):
    from . import c04
    strings = set()
    for s in c04.seeds(6):
        strings.add(s)
        for t in c04.field_edits(s, small=True):
            strings.add(t)
    for s in c04.seeds(2):
        for t in c04.char_edits(s):
            if len(strings) < (400000 if ctx.thorough else 120000):
                strings.add(t)
    strings = sorted(strings)
    outs = core.pool_map(_silence_task, [strings[i::64] for i in range(64)])
    n = sum(o[0] for o in outs)
    for cnt, first, text in outs:
        if first is not None:
            res.add_violation({"what": "a library call on %r writes to stdout/stderr: %r" % (first, text),
                               "kind": "silence", "input": first, "signature": {"kind": "silence"}})
            break
    return {"strings": len(strings), "constructor_calls_with_captured_output": n}


# =============================================================================== driver

def run(ctx, res):
    cov = res.coverage
    cs, ctot = explore_cold_schedules(ctx, res)
    ctx.log("cold/shared schedules: %d, %d points" % (cs["schedules"], cs["scheduling_points_executed"]))
    h = explore_histories(ctx, res, 3 if ctx.thorough else 2)
    ctx.log("histories: %r" % (h,))
    s, tot = explore_schedules(ctx, res)
    ctx.log("schedules: %d, %d points" % (s["schedules"], s["scheduling_points_executed"]))
    hs = explore_hashseeds(ctx, res)
    ctx.log("hash seeds done")
    d = explore_decimal(ctx, res)
    ctx.log("decimal contexts done")
    sl = explore_silence(ctx, res)
    ctx.log("silence done: %r" % (sl,))
    cov["histories"] = h
    cov["schedules"] = s
    cov["cold_and_shared_object_schedules"] = cs
    cov["hash_seeds"] = hs
    cov["decimal_contexts"] = d
    cov["silence"] = sl
    cov["states"] = h["histories_run"] + s["schedules"] + cs["schedules"] + len(hs["seeds"]) + d["contexts"]
    cov["transitions"] = h["histories_run"] * (h["depth"] + 1) + s["scheduling_points_executed"] + \
        cs["scheduling_points_executed"] + \
        hs["comparisons"] + d["contexts"] * d["vectors_per_context"]
    cov["traces_validated_against_impl"] = h["histories_run"] + tot["cmp"] + ctot["cmp"] + hs["comparisons"] + \
        d["contexts"] * d["vectors_per_context"]
    cov["evaluations"] = cov["states"]
    cov["distinct_nontrivial"] = h["histories_run"] + tot["nontrivial"] + ctot["nontrivial"]
    cov["rule"] = ("states = explored executions: API-call histories (each followed by the probe and the "
                   "snapshot comparison), complete thread schedules, hash-seed and decimal-context "
                   "configurations; transitions = operations / scheduling points / compared cases; "
                   "non-trivial = histories plus schedules with at least one preemption")
    cov["exhaustive"] = False
    cov["bound"] = ("histories of length <= %d over %d operations; schedules with <= 2 preemptions "
                    "(see 'schedules.groups' for granularity per group); %d hash seeds; %d decimal "
                    "contexts" % (h["depth"], h["ops"], len(hs["seeds"]), d["contexts"]))
    cov["samples"] = ctx.rot(tot["samples"])[:3] + [{"history": [OPS[0][0], OPS[20][0]]}]
    res.assumptions += ["signal flags of the decimal context are not part of 'the decimal context' "
                        "(any Decimal arithmetic sets them)",
                        "line granularity is the scheduling model (plus opcode granularity at bound 1 in "
                        "the thorough tier); the GIL serialises bytecodes"]


def replay(case):
    k = case["kind"]
    if k == "history":
        base = in_fork(pristine)       # the baseline must not warm this process
        why = run_history(case["input"], base)
        return bool(why), why or "probe unchanged"
    if k == "schedule":
        i = case["input"]
        plan = [tuple(p) for p in i["plan"]]
        a = run_schedule(i["group"], i.get("size", "long"), plan, i["gran"], i.get("hot", False), i.get("spec"))[0]
        if i.get("hot"):
            # a hot execution leaves its strings behind: the second run would not be the same experiment;
            # the caller replays in two separate fresh processes anyway
            return bool(a), a or "as sequential"
        b = run_schedule(i["group"], i.get("size", "long"), plan, i["gran"], i.get("hot", False), i.get("spec"))[0]
        if (a is None) != (b is None):
            raise core.HarnessError("schedule replay is not deterministic")
        return bool(a), a or "as sequential"
    if k == "silence":
        n, first, text = _silence_task([case["input"]])
        return first is not None, "wrote %r" % text
    if k == "cold_schedule":
        i = case["input"]
        plan = [tuple(p) for p in i["plan"]]
        alone = cold_alone(i["group"])
        a = cold_judge(i["group"], plan, i["gran"], alone)[0]
        b = cold_judge(i["group"], plan, i["gran"], alone)[0]
        if (a is None) != (b is None):
            raise core.HarnessError("schedule replay is not deterministic")
        return bool(a), a or "as when run alone"
    if k in ("diff", "crash"):
        if case.get("sub") == "decimal":
            return config.replay_diff(config.Config("decimal-default", sys.executable, "0"), case, "quick")
        return config.replay_diff(config.Config("hashseed-0", sys.executable, "0"), case, case.get("tier", "quick"))
    if k == "decimal":
        i = case["input"]
        fam, v = i["family"], i["vector"]
        a = observe.cls_of(fam)(v).scores()
        decimal.setcontext(decimal.Context(prec=i["ctx"][0], rounding=getattr(decimal, i["ctx"][1])))
        b = observe.cls_of(fam)(v).scores()
        return repr(a) != repr(b), "default %r, under context %r" % (a, b)
    if k == "decimal_traps":
        n, unchanged, after, where = _dec_traps_task(tuple(case["input"]))
        return not unchanged, "context afterwards: %s" % (after,)
    if k == "decimal_ctx":
        p, r = case["input"]
        decimal.setcontext(decimal.Context(prec=p, rounding=getattr(decimal, r)))
        before = opseq.ambient_snapshot()["decimal"]
        for fam, v in dec_vectors()[::997]:
            observe.cls_of(fam)(v).scores()
        after = opseq.ambient_snapshot()["decimal"]
        return before != after, "context %r -> %r" % (before, after)
    return True, "unknown case kind"
