"""
C14 - a more severe metric value never lowers a score (where the standard is monotone).

The score tables are state graphs: node = effective metric assignment, edge = one metric moved one
severity step up, everything else fixed. Every node's scores are produced by the real classes
(E1 sweep), stored one byte per node and slot in a table indexed in mixed radix; then *every*
edge whose two ends were visited is checked by slice arithmetic. No expected-value table is
involved (purely relational oracle), so a corrupted weight / lookup entry that a data-sharing
oracle would miss is still caught.
"""

import array
import itertools

from .. import core, observe, spaces, sweep
from ..engine import product
from ..engine.product import Block, parts
from ..ref import score4, tables as T

UNVISITED = 255
NONE = 254

# ------------------------------------------------------------------ table definitions
# A table: family, axes [(metric, domain order used for indexing, severity order)], slots checked,
# exemptions {(slot, metric)}; `key(asg)` gives the tuple of axis values of a visited vector.


class Table(object):
    def __init__(self, name, family, axes, nslots, check_slots, exempt=(), keyfn=None):
        self.name = name
        self.family = family
        self.axes = axes  # [(metric, domain list, severity order list)]
        self.nslots = nslots
        self.check_slots = check_slots
        self.exempt = set(exempt)
        self.keyfn = keyfn
        self.radix = [len(a[1]) for a in axes]
        self.stride = []
        s = 1
        for r in reversed(self.radix):
            self.stride.insert(0, s)
            s *= r
        self.size = s
        self.pos = [dict((v, i) for i, v in enumerate(a[1])) for a in axes]

    def index(self, asg):
        vals = self.keyfn(asg)
        i = 0
        for k, v in enumerate(vals):
            i += self.pos[k][v] * self.stride[k]
        return i

    def describe(self, i):
        out = {}
        for k, (m, dom, _) in enumerate(self.axes):
            out[m] = dom[(i // self.stride[k]) % self.radix[k]]
        return out


_V4_AX = ["AV", "PR", "UI", "AC", "AT", "VC", "VI", "VA", "SC", "SI", "SA", "CR", "IR", "AR", "E"]


def _v4_key(asg):
    e = score4.effective(asg)
    return [e[m] for m in _V4_AX]


def table_v4():
    axes = [(m, spaces.V4_EFF_DOM[m], T.ORDER4[m]) for m in _V4_AX]
    return Table("v4", "4.0", axes, 1, (0,), keyfn=_v4_key)


_V3_AX = ["AV", "AC", "PR", "UI", "S", "C", "I", "A", "E", "RL", "RC", "CR", "IR", "AR"]
_V3_EQUIV = {"E": "H", "RL": "U", "RC": "C"}  # value an absent temporal metric is equivalent to
_V3_EXEMPT_30 = [(2, m) for m in ("C", "I", "A", "CR", "IR", "AR")]


def _v3_key_inherit(asg):
    return [asg.get(m, _V3_EQUIV.get(m)) for m in _V3_AX]


def table_v3_inherit(fam):
    dom = dict((m, [v for v in T.V3[m] if v != "X"]) for m in _V3_AX)
    axes = [(m, dom[m], T.ORDER3[m]) for m in _V3_AX]
    return Table("v%s.inherit" % fam, fam, axes, 3, (0, 1, 2),
                 exempt=_V3_EXEMPT_30 if fam == "3.0" else (), keyfn=_v3_key_inherit)


_V3_MAX = ["MAV", "MAC", "MPR", "MUI", "MS", "MC", "MI", "MA", "E", "RL", "RC", "CR", "IR", "AR"]


def table_v3_override(fam, tag, fixed):
    """Fixed base vector, all eight modified metrics explicit: only the environmental slot moves."""
    dom = dict((m, [v for v in T.V3[m] if v != "X"]) for m in _V3_MAX)
    axes = [(m, dom[m], T.ORDER3[m[1:]] if m in T.V3_MODIFIED else T.ORDER3[m]) for m in _V3_MAX]
    exempt = [(2, "M" + m) for m in ("C", "I", "A")] + [(2, m) for m in ("CR", "IR", "AR")]
    t = Table("v%s.override.%s" % (fam, tag), fam, axes, 3, (2,),
              exempt=exempt if fam == "3.0" else (),
              keyfn=lambda asg: [asg.get(m, _V3_EQUIV.get(m)) for m in _V3_MAX])
    t.fixed = fixed
    return t


_V3_MSAX = ["AV", "AC", "PR", "UI", "S", "C", "I", "A", "MS", "CR", "IR", "AR"]


def table_v3_ms_only(fam):
    """Only Modified Scope is written (all other Modified metrics inherit): the PR weight of the
    inherited MPR must follow the *Modified* Scope."""
    dom = dict((m, [v for v in T.V3[m] if v != "X"]) for m in _V3_MSAX)
    axes = [(m, dom[m], T.ORDER3["S"] if m == "MS" else T.ORDER3[m]) for m in _V3_MSAX]
    exempt = [(2, m) for m in ("C", "I", "A", "CR", "IR", "AR")]
    return Table("v%s.ms_only" % fam, fam, axes, 3, (0, 1, 2), exempt=exempt if fam == "3.0" else (),
                 keyfn=lambda asg: [asg[m] for m in _V3_MSAX])


_V2_AX = ["AV", "AC", "Au", "C", "I", "A", "E", "RL", "RC"]


def table_v2():
    dom = dict((m, [v for v in T.V2[m] if v != "ND"]) for m in _V2_AX)
    axes = [(m, dom[m], T.ORDER2[m]) for m in _V2_AX]
    return Table("v2", "2", axes, 3, (0, 1), keyfn=lambda asg: [asg[m] for m in _V2_AX])


# ------------------------------------------------------------------ sweep: fill the tables

_TABLES = {}  # block name -> Table


def new_acc():
    a = sweep.new_acc()
    a["idx"] = array.array("L")
    a["val"] = bytearray()
    return a


def visit(acc, blk, vec, asg, idx):
    import cvss

    acc["n"] += 1
    acc["calls"] += 2
    tab = _TABLES[blk.name]
    try:
        sc = observe.construct(blk.family, vec).scores()
        b = bytes(NONE if s is None else int(round(s * 10)) for s in sc)
        if len(b) != tab.nslots or any(x > 100 and x != NONE for x in b):
            raise ValueError("unusable scores %r" % (sc,))
    except Exception as e:  # noqa
        sweep.bad(acc, {"what": "%s(%r): %s: %s" % (T.CLASSNAME[blk.family], vec, type(e).__name__, e),
                        "kind": "raise", "input": vec, "family": blk.family,
                        "signature": {"kind": "raise"}})
        return
    acc["idx"].append(tab.index(asg))
    acc["val"] += b
    if not acc["samples"]:
        acc["samples"].append({"node": vec, "scores": sc})


# ------------------------------------------------------------------ edge check

_EDGE_TABS = None  # list of (Table, [bytearray per slot])


def _edge_task(t):
    """One (table, axis, edge lo->hi) pair: compare all node pairs by slices."""
    ti, k, lo_v, hi_v = t
    tab, slots = _EDGE_TABS[ti]
    m, dom, order = tab.axes[k]
    s, r = tab.stride[k], tab.radix[k]
    a, b = tab.pos[k][lo_v], tab.pos[k][hi_v]
    period = s * r
    out = {"edges": 0, "strict": 0, "viol": [], "nviol": 0, "exempt_nonmonotone": 0}
    for slot in tab.check_slots:
        data = slots[slot]
        exempt = (slot, m) in tab.exempt
        for start in range(0, tab.size, period):
            lo = data[start + a * s: start + a * s + s]
            hi = data[start + b * s: start + b * s + s]
            if lo == hi:
                out["edges"] += s - lo.count(UNVISITED)
                continue
            j = 0
            for x, y in zip(lo, hi):
                if x < NONE and y < NONE:
                    out["edges"] += 1
                    if y > x:
                        out["strict"] += 1
                    elif y < x:
                        if exempt:
                            out["exempt_nonmonotone"] += 1
                        else:
                            out["nviol"] += 1
                            if len(out["viol"]) < 3:
                                out["viol"].append((ti, slot, start + a * s + j, start + b * s + j,
                                                    x, y, m, lo_v, hi_v))
                j += 1
    return out


def run(ctx, res):
    global _EDGE_TABS
    blocks = []
    tabs = []

    def add(tab, blks):
        tabs.append(tab)
        for b in blks:
            b.name = tab.name + ":" + b.name
            _TABLES[b.name] = tab
            blocks.append(b)

    # v2: 729 base x 48 explicit temporal
    add(table_v2(), [Block("base_x_temporal", "2", spaces.v2_base_all(),
                           spaces.v2_temporal_effective())])
    for fam in ("3.0", "3.1"):
        tsk = spaces.v3_temporal_effective() if ctx.thorough else spaces.v3_temporal_skeleton(12)
        add(table_v3_inherit(fam), [Block("base_x_temporal_x_req", fam, spaces.v3_base_all(), tsk,
                                          spaces.v3_req_all())])
        add(table_v3_ms_only(fam), [Block("base_x_ms_x_req", fam, spaces.v3_base_all(),
                                          parts(["MS"], {"MS": ["U", "C"]}), spaces.v3_req_all())])
        bases = [("AV:P/AC:H/PR:H/UI:R/S:U/C:N/I:N/A:N", "low"),
                 ("AV:A/AC:L/PR:L/UI:N/S:C/C:L/I:H/A:L", "mid")]
        if not ctx.thorough:
            bases = bases[1:]
        for bvec, tag in bases:
            basg = dict(f.split(":") for f in bvec.split("/"))
            mod = [(bvec + "/" + f, dict(basg, **d)) for f, d in
                   parts(T.V3_MODIFIED, dict((m, [v for v in T.V3[m] if v != "X"])
                                             for m in T.V3_MODIFIED))]
            add(table_v3_override(fam, tag, bvec),
                [Block("modified_x_temporal_x_req", fam, mod,
                       spaces.v3_temporal_skeleton(4 if not ctx.thorough else 12),
                       spaces.v3_req_all())])
    if ctx.thorough:
        add(table_v4(), spaces.v4_blocks("thorough", "short"))
    else:
        add(table_v4(), spaces.v4_blocks("quick", "short", ("mid", "mid")))

    accs = product.run(ctx, blocks, visit, new_acc)
    tot = sweep.merge(accs)
    data = [(t, [bytearray([UNVISITED]) * t.size for _ in range(t.nslots)]) for t in tabs]
    by_name = dict((t.name, d) for t, d in data)
    ctx.log("sweep done: %d nodes" % tot["n"])
    for a in accs:
        bi = a["_task"][0]
        tab = _TABLES[blocks[bi].name]
        slots = by_name[tab.name]
        val = a["val"]
        ns = tab.nslots
        for j, i in enumerate(a["idx"]):
            for s in range(ns):
                slots[s][i] = val[j * ns + s]
    _EDGE_TABS = data
    tasks = []
    for ti, (tab, _) in enumerate(data):
        for k, (m, dom, order) in enumerate(tab.axes):
            for lo_v, hi_v in zip(order, order[1:]):
                tasks.append((ti, k, lo_v, hi_v))
    outs = core.pool_map(_edge_task, tasks)
    edges = sum(o["edges"] for o in outs)
    strict = sum(o["strict"] for o in outs)
    exempt = sum(o["exempt_nonmonotone"] for o in outs)
    nviol = sum(o["nviol"] for o in outs)
    ctx.log("edges %d strict %d exempt-nonmonotone %d violations %d" % (edges, strict, exempt, nviol))
    cands = []
    for o in outs:
        for (ti, slot, i, j, x, y, m, lo_v, hi_v) in o["viol"][:1]:
            tab = data[ti][0]
            lo_asg, hi_asg = tab.describe(i), tab.describe(j)
            cands.append({
                "what": "%s slot %d: %s %s->%s (more severe) lowers the score %.1f -> %.1f at %s" % (
                    tab.name, slot, m, lo_v, hi_v, x / 10.0, y / 10.0, _spell(tab, lo_asg)),
                "kind": "edge", "family": tab.family, "slot": slot,
                "lo": _spell(tab, lo_asg), "hi": _spell(tab, hi_asg),
                "input": [_spell(tab, lo_asg), _spell(tab, hi_asg)],
                "signature": {"kind": "edge", "family": tab.family},
            })
    # an edge read off the tables must also be non-monotone when its two vectors are scored alone
    # in a fresh process; otherwise the table entry was history-dependent (that is C01-C03 / C19's
    # business, not a monotonicity defect) and the edge is only counted
    cands = cands[:40]
    fresh = core.pool_map(_recheck, cands, fresh=True) if cands else []
    unstable = 0
    for c, ok in zip(cands, fresh):
        if ok:
            res.add_violation(c)
        else:
            unstable += 1
    res.coverage["edges_not_reproducible_in_a_fresh_process"] = unstable
    sweep.fill(res, ctx, tot, blocks,
               "nodes = effective metric assignments scored by the real classes; transitions = "
               "single-metric one-step severity increases between two visited nodes, all of them "
               "checked (score(hi) >= score(lo)) except the standard's own non-monotone v3.0 "
               "environmental C/I/A/CR/IR/AR axes, which are counted separately; "
               "distinct_nontrivial = edges on which the score strictly increases", exhaustive=True)
    rtasks = []
    for fam in T.FAMILIES:
        for lo, hi in core.split_range(ROW_EDGES[ctx.tier][fam], 24):
            rtasks.append((fam, lo, hi))
    raccs = core.task_map(_row_edges_task, rtasks)
    rtot = sweep.merge(raccs)
    for c in rtot["bad"]:
        res.add_violation(c)
    res.coverage["interaction_row_edges"] = {"rows": ROW_EDGES[ctx.tier], "edges": rtot["calls"],
                                             "slot_comparisons": rtot["cmp"], "strictly_increasing": rtot["nontrivial"]}
    edges += rtot["calls"]
    strict += rtot["nontrivial"]
    nviol += rtot["nbad"]
    res.coverage["transitions"] = edges
    res.coverage["traces_validated_against_impl"] = edges
    res.coverage["distinct_nontrivial"] = strict
    res.coverage["exempt_edges_observed_nonmonotone"] = exempt
    res.coverage["violating_cases_total"] = nviol
    res.coverage["tables"] = dict((t.name, {"nodes_in_index_space": t.size}) for t in tabs)
    res.coverage["bound"] = ("all edges of the complete score tables (v4: 15.1M nodes)"
                             if ctx.thorough else
                             "all edges between nodes of the quick (<=1 free group) spaces")


# ------------------------------------------------------------------ edges around interaction rows

def _step_order(fam, m):
    """Severity order of metric m where the statement claims monotonicity, else None."""
    if fam == "2":
        return T.ORDER2.get(m)
    if fam == "4.0":
        return T.ORDER4.get(m[1:] if m in T.V4_MODIFIED else m)
    return T.ORDER3.get(m[1:] if m in T.V3_MODIFIED else m)


def _row_slots(fam, m):
    """Score slots in which a step of metric m must not lower the score."""
    if fam == "4.0":
        return (0,)
    if fam == "2":
        return (0, 1)
    base = m[1:] if m in T.V3_MODIFIED else m
    if fam == "3.0" and base in ("C", "I", "A", "CR", "IR", "AR"):
        return (0, 1)            # the 3.0 standard's own non-monotone environmental axes
    return (0, 1, 2)


def _row_edges_task(t):
    """Every single-metric one-step severity increase around the interaction rows lo..hi: vectors
    in which base, temporal/threat, requirement and (partially) modified metrics vary at once."""
    fam, lo, hi = t
    acc = sweep.new_acc()
    cls = observe.cls_of(fam)
    doms = spaces._domains(fam)
    names = [m for m, _ in doms]
    for k in range(lo, hi):
        asg = spaces.interaction_row(fam, k, doms)
        vec = T.spell(fam, asg, [m for m in names if m in asg])
        try:
            s_lo = cls(vec).scores()
        except Exception as e:  # noqa
            sweep.bad(acc, {"what": "%s(%r): %s: %s" % (T.CLASSNAME[fam], vec, type(e).__name__, e),
                            "kind": "raise", "input": vec, "family": fam, "signature": {"kind": "raise"}})
            continue
        acc["n"] += 1
        for m, v in asg.items():
            order = _step_order(fam, m)
            if not order or v not in order or order.index(v) + 1 >= len(order):
                continue
            nv = order[order.index(v) + 1]
            if nv not in T.METRICS[fam][m]:
                continue                       # e.g. Safety exists for MSI/MSA only
            hvec = T.spell(fam, dict(asg, **{m: nv}), [x for x in names if x in asg])
            try:
                s_hi = cls(hvec).scores()
            except Exception as e:  # noqa
                sweep.bad(acc, {"what": "%s(%r): %s: %s" % (T.CLASSNAME[fam], hvec, type(e).__name__, e),
                                "kind": "raise", "input": hvec, "family": fam, "signature": {"kind": "raise"}})
                continue
            acc["calls"] += 1
            for slot in _row_slots(fam, m):
                a, b = s_lo[slot], s_hi[slot]
                if a is None or b is None:
                    continue
                acc["cmp"] += 1
                if b > a:
                    acc["nontrivial"] += 1
                if b < a:
                    sweep.bad(acc, {
                        "what": "%s slot %d: %s %s->%s (more severe) lowers the score %.1f -> %.1f at %s" % (
                            fam, slot, m, v, nv, a, b, vec),
                        "kind": "edge", "family": fam, "slot": slot, "lo": vec, "hi": hvec,
                        "input": [vec, hvec], "signature": {"kind": "edge", "family": fam}})
    return acc


ROW_EDGES = {"quick": {"2": 30000, "3.0": 20000, "3.1": 20000, "4.0": 12000},
             "thorough": {"2": 300000, "3.0": 200000, "3.1": 200000, "4.0": 120000}}


def _recheck(case):
    try:
        return replay(case)[0]
    except Exception:  # noqa
        return True


def _spell(tab, asg):
    if tab.family == "4.0":
        return T.PREFIX["4.0"] + spaces.v4_part(asg, "short")[0]
    fixed = getattr(tab, "fixed", None)
    return T.PREFIX[tab.family] + (fixed + "/" if fixed else "") + \
        "/".join("%s:%s" % (m, asg[m]) for m, _, _ in tab.axes)


def replay_task(case):
    return core.replay_func_task(case)


def replay(case):
    import cvss

    cls = getattr(cvss, T.CLASSNAME[case["family"]])
    if case.get("kind") == "raise":
        try:
            cls(case["input"]).scores()
        except Exception as e:  # noqa
            return True, "%s: %s" % (type(e).__name__, e)
        return False, "accepted"
    lo = cls(case["lo"]).scores()[case["slot"]]
    hi = cls(case["hi"]).scores()[case["slot"]]
    return hi < lo, "score(lo)=%r score(hi)=%r" % (lo, hi)
