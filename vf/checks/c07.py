"""
C07 - clean_vector() is a canonical form; equality and hash are consistent with it.
Universe U of accepted vectors per family (seeds, all their Hamming-1 variants in the
defined-metric map, Hamming-2 variants of one seed, re-spellings, the same body under the other
minor version). Unary checks on every element, binary checks on ALL ordered pairs of U.
Oracle: the model's own parse (defined-metric map / model key).
"""

import itertools
import json

from .. import core, observe, sweep
from ..ref import tables as T

_U = None      # list of (family, vector, model key)
_OBJ = None


def universe(n_seeds, cap):
    out = []
    seen = set()

    def add(fam, asg, order=None):
        s = T.spell(fam, asg, order)
        if s in seen:
            return
        seen.add(s)
        out.append((fam, s, T.model_key(fam, asg)))

    for fam in T.FAMILIES:
        tab = T.METRICS[fam]
        nd = T.ND[fam]
        start = len(out)
        seeds = observe.covering_seeds(fam, n_seeds)
        for s, asg in seeds:
            add(fam, asg)
        # Hamming-1 variants in the defined-metric map (to every other value, and to undefined)
        for si, (s, asg) in enumerate(seeds):
            for m in tab:
                for v in tab[m] + [None]:
                    if len(out) - start >= cap:
                        break
                    a = dict(asg)
                    if v is None:
                        if m in T.MANDATORY[fam] or m not in a:
                            continue
                        del a[m]
                    else:
                        if a.get(m) == v:
                            continue
                        a[m] = v
                    add(fam, a)
        # Hamming-2 variants of the first seed
        s0, a0 = seeds[0]
        ms = list(tab)
        for m1, m2 in itertools.combinations(ms, 2):
            if len(out) - start >= cap + 200:
                break
            a = dict(a0)
            a[m1] = tab[m1][-1]
            a[m2] = tab[m2][0]
            add(fam, a)
        # re-spellings: permuted, explicit ND for all absent optional metrics
        for s, asg in seeds[:25]:
            order = [m for m in tab if m in asg][::-1]
            add(fam, asg, order)
            a = dict(asg)
            for m in T.OPTIONAL[fam]:
                a.setdefault(m, nd)
            add(fam, a)
        # block layouts: every metric defined, the blocks of the version in every order
        full = T.full_assignment(fam, -1)
        for rev in (False, True):
            for order in T.block_layouts(fam, full, rev)[::(1 if fam != "4.0" else 3)]:
                add(fam, full, order)
        # the same bodies under the other minor version
        if fam == "3.0":
            for s, asg in seeds[:25]:
                add("3.1", asg)
        if fam == "3.1":
            for s, asg in seeds[:25]:
                add("3.0", asg)
    return out


FOREIGN = [None, 0, 7.5, "", (), [], {}]


class Duck(object):
    """A value of another type that quacks like a CVSS object."""

    def __init__(self, like):
        self.like = like
        self.vector = like.vector
        self.metrics = dict(getattr(like, "metrics", {}))
        self.original_metrics = dict(getattr(like, "original_metrics", {}))
        self.minor_version = getattr(like, "minor_version", None)

    def clean_vector(self, output_prefix=True):
        return self.like.clean_vector()

    def scores(self):
        return self.like.scores()

    def __hash__(self):
        return hash(self.like)


_SUBS = {}


def _subclasses(cls):
    if cls not in _SUBS:
        _SUBS[cls] = (type("Finding", (cls,), {}), type("Advisory", (cls,), {"source": "feed"}))
    return _SUBS[cls]


PRODUCER = r"""
import pickle, sys, json
sys.path.insert(0, sys.argv[1])
import cvss
from cvss.parser import parse_cvss_from_text
items = json.loads(sys.stdin.read())
out = []
seen = set()
for major, v in items:
    o = {2: cvss.CVSS2, 3: cvss.CVSS3, 4: cvss.CVSS4}[major](v)
    seen.add(o); hash(o); o == o
    out.append(o)
    if major != 4:
        out.extend(parse_cvss_from_text(v))
    else:
        out.append(o)
sys.stdout.buffer.write(pickle.dumps(out, 2))
"""


def _travel_task(t):
    """Objects built, hashed and pickled in ANOTHER process (its own hash seed) and unpickled here:
    each must equal, and hash like, a fresh object of its vector - a worker pool, a queue or a
    disk cache moves objects between processes exactly like this."""
    import pickle
    import subprocess
    import sys
    seed, items = t
    acc = sweep.new_acc()
    env = {"PYTHONHASHSEED": str(seed), "PATH": "/usr/bin:/bin", "PYTHONDONTWRITEBYTECODE": "1"}
    p = subprocess.Popen([sys.executable, "-c", PRODUCER, core.REPO], stdin=subprocess.PIPE, stdout=subprocess.PIPE,
                         stderr=subprocess.PIPE, env=env, cwd="/")
    out, err = p.communicate(json.dumps(items).encode("utf-8"))
    if p.returncode != 0:
        sweep.bad(acc, {"what": "objects cannot be pickled in a producer process: %s" % err.decode("utf-8", "replace")[-300:],
                        "kind": "travel", "input": [seed, items[:3]], "signature": {"kind": "travel"}})
        return acc
    try:
        objs = pickle.loads(out)
    except Exception as e:  # noqa
        sweep.bad(acc, {"what": "objects pickled in another process cannot be unpickled: %s: %s" % (type(e).__name__, e),
                        "kind": "travel", "input": [seed, items[:3]], "signature": {"kind": "travel"}})
        return acc
    for k, (major, v) in enumerate(items):
        for o in objs[2 * k:2 * k + 2]:
            acc["n"] += 1
            acc["cmp"] += 4
            fresh = type(o)(v)
            if not (o == fresh) or not (fresh == o) or hash(o) != hash(fresh) or o not in set([fresh]) or \
                    fresh not in set([o]) or o.clean_vector() != fresh.clean_vector() or o.scores() != fresh.scores():
                sweep.bad(acc, {"what": "%s(%r) built, hashed and pickled in a process with PYTHONHASHSEED=%s, unpickled "
                                "here: not equal to / not hashing like a fresh object of the same vector" % (
                                    type(o).__name__, v, seed), "kind": "travel", "input": [seed, [[major, v]]],
                                "signature": {"kind": "travel"}})
                return acc
            acc["nontrivial"] += 1
    return acc


def unary(i):
    fam, s, key = _U[i]
    cls = observe.cls_of(fam)
    try:
        x = cls(s)
        cv = x.clean_vector()
        got = T.parse(fam, s)[1]
        want_defined = T.defined(fam, got)
        P = T.PREFIX[fam]
        if not cv.startswith(P):
            return "clean_vector() %r lacks the version prefix" % cv, None
        body = cv[len(P):]
        fields = body.split("/") if body else []
        pairs = [tuple(f.split(":")) for f in fields]
        if any(len(p) != 2 for p in pairs):
            return "clean_vector() %r has a malformed field" % cv, None
        ms = [p[0] for p in pairs]
        if len(set(ms)) != len(ms):
            return "clean_vector() %r lists a metric twice" % cv, None
        if dict(pairs) != dict(want_defined):
            return "clean_vector() %r does not list exactly the defined metrics %r" % (
                cv, dict(want_defined)), None
        if fam != "2":
            np_ = x.clean_vector(output_prefix=False)
            if np_ != body:
                return "clean_vector(output_prefix=False) %r is not the cleaned vector minus prefix %r" % (
                    np_, body), None
        y = cls(cv)
        if not (y == x) or not (x == y):
            return "re-parsed cleaned vector %r is not equal to the object" % cv, None
        if y.scores() != x.scores():
            return "re-parsed cleaned vector %r scores %r, original %r" % (cv, y.scores(), x.scores()), None
        if y.clean_vector() != cv:
            return "clean_vector() is not idempotent: %r -> %r" % (cv, y.clean_vector()), None
        if hash(y) != hash(x):
            return "re-parsed cleaned vector hashes differently", None
        for f in FOREIGN + [cv, x.scores(), s, object(), Duck(x)]:
            if x == f or f == x:
                return "object compares equal to %r" % (f,), None
        if x != x or not (x == x):
            return "object is not equal to itself", None
        if x.as_json() == x or x == x.as_json():
            return "object compares equal to its JSON dict", None
        # instances of trivial application subclasses (class Finding(CVSS3): pass) are objects of
        # the same CVSS version defining the same metric values
        Sub1, Sub2 = _subclasses(cls)
        subs = [("a subclass instance", Sub1(s)), ("an instance of a sibling subclass", Sub2(s)),
                ("a subclass instance built from the cleaned vector", Sub1(cv))]
        for name, o in subs:
            if not (o == x) or not (x == o) or (o != x) or (x != o) or hash(o) != hash(x) or o not in set([x]) or x not in set([o]):
                return "%s is not equal to / does not hash like the plain object of the same vector" % name, None
        if not (subs[0][1] == subs[1][1]) or hash(subs[0][1]) != hash(subs[1][1]):
            return "instances of two sibling subclasses built from the same vector are not equal", None
        # the same vector through every entry point: one value, whichever way it was obtained
        # (objects of different origin meet in one set or dictionary in any consumer that merges feeds)
        group = [("constructor", x)]
        for e in observe.ENTRIES:
            observe.ENTRY = e
            try:
                group.append((e, observe.construct(fam, s)))
            finally:
                observe.ENTRY = "direct"
        for (ea, a), (eb, b) in itertools.permutations(group, 2):
            if not (a == b) or (a != b) or hash(a) != hash(b):
                return "the object obtained through %s and the one obtained through %s are not equal / do not hash alike" % (ea, eb), None
        if len(set(o for _, o in group)) != 1 or len(dict((o, 1) for _, o in group[::-1])) != 1:
            return "objects of the same vector obtained through different entry points do not collapse in a set", None
        if any(o.clean_vector() != cv or o.scores() != x.scores() for _, o in group):
            return "objects of the same vector obtained through different entry points differ in clean_vector()/scores()", None
    except Exception as e:  # noqa
        return "raised %s: %s" % (type(e).__name__, e), None
    return None, ms


def _unary_task(r):
    lo, hi = r
    acc = sweep.new_acc()
    orders = set()
    for i in range(lo, hi):
        acc["n"] += 1
        acc["calls"] += 12
        acc["cmp"] += 8
        why, ms = unary(i)
        if why:
            fam, s, key = _U[i]
            sweep.bad(acc, {"what": "%s(%r): %s" % (T.CLASSNAME[fam], s, why), "kind": "unary",
                            "input": s, "family": fam, "signature": {"kind": "unary"}})
        else:
            fam = _U[i][0]
            for a, b in itertools.combinations(ms, 2):
                orders.add((T.MAJOR[fam], a, b))
            acc["nontrivial"] += 1
    acc["extra"]["orders"] = orders
    return acc


def pair_check(i, j):
    fa, sa, ka = _U[i]
    fb, sb, kb = _U[j]
    a, b = _OBJ[i], _OBJ[j]
    want = ka == kb
    try:
        eq = a == b
        if eq is not True and eq is not False:
            return "== returned %r" % (eq,)
        if eq != want:
            return "== is %r but the vectors %s the same version and defined metric values" % (
                eq, "have" if want else "do not have")
        if (b == a) != eq:
            return "== is not symmetric"
        if (a != b) == eq:
            return "!= is inconsistent with =="
        if eq:
            if hash(a) != hash(b):
                return "equal objects hash differently"
            if a.scores() != b.scores() or a.severities() != b.severities() or \
                    a.clean_vector() != b.clean_vector():
                return "equal objects differ in scores / ratings / cleaned vector"
    except Exception as e:  # noqa
        return "raised %s: %s" % (type(e).__name__, e)
    return None


def _pair_task(r):
    global _OBJ
    lo, hi = r
    acc = sweep.new_acc()
    n = len(_U)
    if _OBJ is None:     # every task (a fresh fork of the pristine parent) builds its own objects
        _OBJ = [observe.cls_of(f)(s) for f, s, k in _U]
    for i in range(lo, hi):
        for j in range(n):
            acc["n"] += 1
            why = pair_check(i, j)
            if why:
                sweep.bad(acc, {"what": "%r vs %r: %s" % (_U[i][1], _U[j][1], why), "kind": "pair",
                                "input": [_U[i][1], _U[j][1]], "families": [_U[i][0], _U[j][0]],
                                "signature": {"kind": "pair"}})
            elif _U[i][2] == _U[j][2] and i != j:
                acc["nontrivial"] += 1
                if not acc["samples"]:
                    acc["samples"].append({"equal_pair": [_U[i][1], _U[j][1]]})
    acc["calls"] = acc["n"] * 3
    acc["cmp"] = acc["n"]
    return acc


SHAPES = {
    "2": ["TD:H/CR:ND", "CDP:L/IR:ND/AR:ND", "E:ND/TD:M", "RL:ND", "CR:ND/IR:ND/AR:ND/CDP:H"],
    "3": ["MS:{notS}/MPR:X", "E:X", "CR:X", "MS:X", "MAV:X/MC:X", "MS:{notS}/MAV:X"],
    "4.0": ["MSI:X", "MVC:X/E:X", "CR:X", "MSA:X/MSC:X", "MAV:X/S:X"],
}


def extension(tier):
    """Unary-only extension of the universe: EVERY base assignment of every family (v4: every 37th)
    with a few shapes in which some optional metric is written as explicit Not Defined next to a
    defined one - the canonical form drops the former, so the re-parse check exercises the
    'explicit Not Defined vs omitted' paths on all base vectors."""
    from .. import spaces
    out = []
    for fam in T.FAMILIES:
        if fam == "2":
            bases = spaces.v2_base_all()
        elif fam == "4.0":
            bases = spaces.thin(spaces.parts(T.V4_BASE, T.V4), 37 if tier != "thorough" else 5)
        else:
            bases = spaces.v3_base_all()
        shapes = SHAPES["3" if fam.startswith("3") else fam]
        for frag, d in bases:
            for sh in shapes:
                if "{notS}" in sh:
                    sh = sh.replace("{notS}", "C" if d["S"] == "U" else "U")
                s = T.PREFIX[fam] + frag + "/" + sh
                out.append((fam, s, None))
    return out


def _ext_task(r):
    global _U
    lo, hi = r
    acc = sweep.new_acc()
    saved = _U
    _U = _EXT
    try:
        for i in range(lo, hi):
            acc["n"] += 1
            acc["calls"] += 12
            acc["cmp"] += 8
            why, ms = unary(i)
            if why:
                fam, s, key = _EXT[i]
                sweep.bad(acc, {"what": "%s(%r): %s" % (T.CLASSNAME[fam], s, why), "kind": "unary",
                                "input": s, "family": fam, "signature": {"kind": "unary"}})
            else:
                acc["nontrivial"] += 1
    finally:
        _U = saved
    return acc


def _longevity_task(fam):
    """Scale: an object is hashed and compared, then 5,000 other distinct vectors are built, hashed
    and compared with a re-spelling of themselves, then the first object must still equal (and
    hash like) a fresh copy of itself and of its re-spelling."""
    from .. import spaces
    acc = sweep.new_acc()
    cls = observe.cls_of(fam)
    if fam == "2":
        vs = [T.PREFIX[fam] + "/".join(x for x in (fa, fb, fc) if x) for fa, _ in spaces.v2_base_all()[::3]
              for fb, _ in spaces.v2_temporal_effective()[::4] for fc, _ in [("", {}), ("CDP:L/TD:M", {})]]
    elif fam == "4.0":
        vs = [T.PREFIX[fam] + f + e for f, _ in spaces.parts(T.V4_BASE, T.V4)[::19] for e in ("", "/E:P", "/CR:L/MAV:N")]
    else:
        vs = [T.PREFIX[fam] + f + e for f, _ in spaces.v3_base_all() for e in ("", "/E:P/RL:T", "/CR:H/MS:C")]
    vs = vs[:5200]
    nd = T.ND[fam]
    first = vs[0]
    early = cls(first)
    s = set([early])
    h0 = hash(early)
    seen = []
    for v in vs[1:]:
        acc["n"] += 1
        a = cls(v)
        b = cls(v + "/%s:%s" % (T.OPTIONAL[fam][-1], nd) if T.OPTIONAL[fam][-1] + ":" not in v else v)
        if not (a == b) or hash(a) != hash(b) or a == early or a in s:
            sweep.bad(acc, {"what": "%s: %r and its re-spelling are not equal / same hash (or equal %r) after %d objects" % (
                T.CLASSNAME[fam], v, first, acc["n"]), "kind": "longevity", "input": fam, "signature": {"kind": "longevity"}})
            return acc
        if len(seen) < 50:
            seen.append(a)
    late = cls(first)
    acc["cmp"] += 4
    if not (early == late) or not (late == early) or hash(late) != h0 or hash(early) != h0 or late not in s:
        sweep.bad(acc, {"what": "%s(%r): an object built first no longer equals / hashes like a fresh copy of itself "
                        "after %d other objects were built and compared" % (T.CLASSNAME[fam], first, len(vs) - 1),
                        "kind": "longevity", "input": fam, "signature": {"kind": "longevity"}})
    for a in seen:
        if not (a == cls(a.vector)) or hash(a) != hash(cls(a.vector)):
            sweep.bad(acc, {"what": "%s(%r): no longer equal to a fresh copy of itself" % (T.CLASSNAME[fam], a.vector),
                            "kind": "longevity", "input": fam, "signature": {"kind": "longevity"}})
            break
    acc["nontrivial"] += acc["n"]
    return acc


_EXT = None


def build_universe(tier):
    global _EXT
    _EXT = extension(tier)
    global _U
    _U = universe(30 if tier == "thorough" else 16, 1400 if tier == "thorough" else 420)


def replay_task(case):
    return core.replay_func_task(case, lambda c: build_universe(c.get("tier") or "quick"))


def run(ctx, res):
    global _U, _OBJ
    build_universe(ctx.tier)
    ctx.log("universe: %d vectors" % len(_U))
    accs = core.task_map(_unary_task, core.split_range(len(_U), 64))
    orders = set()
    for a in accs:
        orders |= a["extra"].get("orders", set())
    # "one fixed metric order": the union of observed orders must be antisymmetric and acyclic
    for (mj, a, b) in sorted(orders):
        if (mj, b, a) in orders:
            res.add_violation({"what": "CVSS%d: metrics %s and %s appear in both orders in cleaned "
                               "vectors" % (mj, a, b), "kind": "order", "major": mj,
                               "input": [a, b], "no_fresh_replay": True,
                               "signature": {"kind": "order"}})
            break
    accs_e = core.task_map(_ext_task, core.split_range(len(_EXT), 64))
    accs_e += core.task_map(_longevity_task, list(T.FAMILIES))
    travellers = [[int(f[0]), s] for f, s, k in _U[::max(1, len(_U) // 240)]]
    accs_e += core.task_map(_travel_task, [(seed, travellers[i::4]) for i, seed in enumerate((101, 202, 7, "random"))])
    res.coverage["objects_pickled_in_other_processes"] = 2 * len(travellers)
    bad_unary = sum(a["nbad"] for a in accs)
    if bad_unary == 0:
        accs_p = core.task_map(_pair_task, ctx.rot(core.split_range(len(_U), 256 if ctx.thorough else 128)))
        _OBJ = [observe.cls_of(f)(s) for f, s, k in _U]
        # transitivity on a sub-universe, all triples
        sub = list(range(0, len(_U), max(1, len(_U) // 60)))[:60]
        tri = 0
        for i, j, k in itertools.product(sub, repeat=3):
            tri += 1
            if _OBJ[i] == _OBJ[j] and _OBJ[j] == _OBJ[k] and not (_OBJ[i] == _OBJ[k]):
                res.add_violation({"what": "== not transitive on %r, %r, %r" % (
                    _U[i][1], _U[j][1], _U[k][1]), "kind": "pair", "input": [_U[i][1], _U[k][1]],
                    "families": [_U[i][0], _U[k][0]], "signature": {"kind": "pair"}})
                break
    else:
        accs_p, tri = [], 0
    tot = sweep.merge(accs + accs_p + accs_e)
    res.coverage["unary_extension_vectors"] = len(_EXT)
    cov = res.coverage
    cov["states"] = len(_U)
    cov["transitions"] = sum(a["n"] for a in accs_p)
    cov["traces_validated_against_impl"] = tot["cmp"]
    cov["evaluations"] = tot["n"]
    cov["distinct_nontrivial"] = tot["nontrivial"]
    cov["universe_per_family"] = dict((f, len([1 for x in _U if x[0] == f])) for f in T.FAMILIES)
    cov["equivalence_classes"] = len(set(k for f, s, k in _U))
    cov["ordered_pairs_checked"] = cov["transitions"]
    cov["triples_checked"] = tri
    cov["metric_order_pairs_observed"] = len(orders)
    cov["rule"] = ("states = universe of accepted vectors; transitions = ordered pairs (a,b), each "
                   "checked: a==b iff same model key (version, minor, defined-metric map), "
                   "symmetry, != consistency, equal => same hash/scores/ratings/cleaned vector; "
                   "unary: cleaned vector lists exactly the defined metrics once, fixed relative "
                   "order across all outputs, prefix handling, idempotent re-parse, no equality "
                   "with foreign values; non-trivial = unary passes + distinct pairs that are equal")
    cov["exhaustive"] = False
    cov["bound"] = "all ordered pairs of a universe of %d vectors (all four families, cross-family " \
                   "pairs included); transitivity on all triples of a 60-element sub-universe" % len(_U)
    cov["samples"] = ctx.rot(tot["samples"])[:5] + [{"vector": _U[0][1]}]
    for c in tot["bad"]:
        res.add_violation(c)
    cov["violating_cases_total"] = tot["nbad"]


def replay(case):
    global _U, _OBJ
    if case["kind"] == "travel":
        acc = _travel_task((case["input"][0], case["input"][1]))
        return bool(acc["bad"]), (acc["bad"][0]["what"] if acc["bad"] else "equal and hashing alike")
    if case["kind"] == "longevity":
        acc = _longevity_task(case["input"])
        return bool(acc["bad"]), (acc["bad"][0]["what"] if acc["bad"] else "stable")
    if case["kind"] == "unary":
        _U = [(case["family"], case["input"], None)]
        why, _ = unary(0)
        return bool(why), why or "canonical"
    if case["kind"] == "pair":
        (fa, fb), (sa, sb) = case["families"], case["input"]
        _U = [(fa, sa, T.model_key(fa, T.parse(fa, sa)[1])), (fb, sb, T.model_key(fb, T.parse(fb, sb)[1]))]
        _OBJ = [observe.cls_of(fa)(sa), observe.cls_of(fb)(sb)]
        why = pair_check(0, 1)
        return bool(why), why or "consistent"
    return True, "order inconsistency is decided over the whole universe; re-run the check"
