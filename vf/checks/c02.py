"""
C02 - CVSS v4.0 score equals the FIRST macrovector / interpolation algorithm.
E1 product sweep on the real CVSS4 class against vf.ref.score4 (exact arithmetic, own table).
"""

from .. import core, observe, spaces, sweep
from ..engine import product
from ..ref import official, score4, tables as T


def model(fam, asg):
    return ([score4.score(asg) / 10.0],)


def judge(vec, asg):
    import cvss

    exp = score4.score(asg)
    try:
        obj = observe.construct("4.0", vec)
        got = obj.scores()
    except Exception as e:  # noqa
        return "constructor/scores() raised %s: %s" % (type(e).__name__, e), None, exp
    if not (isinstance(got, tuple) and len(got) == 1):
        return "scores() is not a 1-tuple: %r" % (got,), got, exp
    if "-" in repr(got):
        return "the score is negative (or negative zero): %r" % (got,), got, exp
    if got[0] is None or got[0] != exp / 10.0:
        return "score %r, specification algorithm gives %r" % (got[0], exp / 10.0), got, exp
    if obj.base_score != got[0]:
        return "base_score attribute %r differs from scores() %r" % (obj.base_score, got), got, exp
    return None, got, exp


def visit(acc, blk, vec, asg, idx):
    if blk.meta.get("xmod"):
        extra = [m for m in T.V4_MODIFIED if m not in asg]
        vec = vec + "".join("/%s:X" % m for m in extra)
        asg = dict(asg, **dict((m, "X") for m in extra))
    if blk.meta.get("dedupe_fields"):
        # the block's last part may name a metric its middle part names too: the last one counts
        f = vec[len("CVSS:4.0/"):].split("/")
        names = [x.split(":")[0] for x in f]
        if len(set(names)) != len(names):
            keep = [x for i, x in enumerate(f) if names[i] not in names[i + 1:]]
            vec = "CVSS:4.0/" + "/".join(keep)
    acc["n"] += 1
    acc["calls"] += 2
    why, got, exp = judge(vec, asg)
    acc["cmp"] += 1
    if why:
        sweep.bad(acc, {"what": "CVSS4(%r): %s" % (vec, why), "kind": "score4", "input": vec,
                        "signature": {"kind": "score4"}})
        return
    if got[0] != 0.0:
        acc["nontrivial"] += 1
    acc["outcomes"].add(got)
    if not acc["samples"]:
        acc["samples"].append({"vector": vec, "scores": got})


def blocks(tier):
    if tier == "thorough":
        return spaces.v4_blocks("thorough", "short") + spaces.v4_blocks("quick", "override") + \
            spaces.v4_xmod_blocks(("mid", "mid")) + [spaces.interaction_block("4.0", tier), spaces.layout_block("4.0"), spaces.v4_written_maxima_block()]
    return spaces.v4_blocks("quick", "short", ("mid", "mid")) + \
        spaces.v4_blocks("quick", "override", ("min", "mid")) + spaces.v4_xmod_blocks(("mid", "mid")) + \
        [spaces.interaction_block("4.0", tier), spaces.layout_block("4.0"), spaces.v4_written_maxima_block()]


def run(ctx, res):
    n_off = official.validate("4", model)
    ctx.log("reference model reproduces %d official v4 vectors" % n_off)
    blocks_ = blocks(ctx.tier)
    tot = sweep.merge(product.run(ctx, blocks_, visit, sweep.new_acc))
    sweep.fill(res, ctx, tot, blocks_,
               "every point of the listed product blocks over the v4 effective-value domains is "
               "spelled as a vector ('short': base metrics + MSI/MSA:S + non-default E/CR/IR/AR; "
               "'override': every value through its Modified metric over a differing base value, "
               "defaults as explicit X), constructed with the real CVSS4 class and its score "
               "compared with the exact model; points distinct by construction; non-trivial = "
               "score is not 0.0", exhaustive=True)
    res.coverage["official_vectors_reproduced_by_model"] = n_off
    res.coverage["interaction_rows"] = spaces.interaction_evidence(["4.0"], ctx.tier)
    res.coverage["bound"] = (
        "all 15,116,544 effective assignments (short spelling) + skeleton/one-free-group blocks in "
        "the override spelling" if ctx.thorough else
        "skeleton (a highest-severity vector and a lowest member of every equivalence level; "
        "highest-severity vectors only for the override spelling) with the 729-point group "
        "{VC,VI,VA,CR,IR,AR} free, and that group on its skeleton with all other groups free at "
        "once; all 270 macrovectors occur")
    res.assumptions += ["the pinned 270-row lookup table equals FIRST's cvss_lookup.js "
                        "(it reproduces all pinned official v4 vectors)"]


def replay(case):
    vec = case["input"]
    verdict, got = T.parse("4.0", vec)
    if verdict != "ACCEPT":
        raise core.HarnessError("replay input is not a valid v4 vector")
    why, obs, exp = judge(vec, dict(got))
    return bool(why), why or "score %r as the specification's algorithm" % (obs,)


def replay_task(case):
    return product.replay_task(blocks(case.get("tier") or "quick"), visit, sweep.new_acc, case)
