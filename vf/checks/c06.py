"""
C06 - only effective metric values influence the scores (non-interference).

Five edge relations over enumerated input sets; every edge joins a baseline vector with a variant
that differs only by a substitution the specification declares ineffective. Oracle: the stated
score slots are equal on both ends (differential, no expected values).
"""

import itertools

from .. import core, spaces, sweep
from ..engine.product import parts
from ..ref import tables as T

ALL = (0, 1, 2)


def spell(prefix, asg, order):
    return prefix + "/".join("%s:%s" % (m, asg[m]) for m in order if m in asg)


def subsets(items, maxsize=None):
    items = list(items)
    top = len(items) if maxsize is None else min(maxsize, len(items))
    for r in range(top + 1):
        for c in itertools.combinations(items, r):
            yield c


# ------------------------------------------------------------------ relations
# A relation has .name, .family, .outer (list) and .expand(item) yielding
#   (baseline_vector, [variant_vectors], slots)

class Rel(object):
    def __init__(self, name, family, outer, expand):
        self.name, self.family, self.outer, self.expand = name, family, outer, expand


V3_CTX = {"E": "P", "RL": "T", "RC": "R", "CR": "H", "IR": "L", "AR": "M"}
V3_ORDER = list(T.V3)
V2_ORDER = list(T.V2)
V4_ORDER = list(T.V4)
# relation (d) writes every second group of vectors with the Modified metrics in front of the base
# metrics they override: what is read last must not win
V3_MODFIRST = T.V3_MODIFIED + [m for m in T.V3 if m not in T.V3_MODIFIED]
V4_MODFIRST = T.V4_MODIFIED + [m for m in T.V4 if m not in T.V4_MODIFIED]


def _alt(frag, plain, modfirst):
    import zlib
    return modfirst if zlib.crc32(frag.encode("utf-8")) % 2 else plain


def rel_a_v3(fam, tier):
    """(a) any subset of the 8 modified metrics switched from absent (and from X) to the base value."""
    ctxs = [V3_CTX] if tier == "quick" else [V3_CTX, {}]
    mods = T.V3_MODIFIED

    def expand(part):
        _, base = part
        for ctx in ctxs:
            asg = dict(base, **ctx)
            b = spell(T.PREFIX[fam], asg, V3_ORDER)
            allx = dict(asg, **dict((m, "X") for m in mods))
            vs = [spell(T.PREFIX[fam], allx, V3_ORDER)]
            for sub in subsets(mods):
                if not sub:
                    continue
                v = dict(asg)
                for m in sub:
                    v[m] = base[m[1:]]
                vs.append(spell(T.PREFIX[fam], v, V3_ORDER))
                if len(sub) <= 1 or tier == "thorough":
                    vx = dict(allx)
                    for m in sub:
                        vx[m] = base[m[1:]]
                    vs.append(spell(T.PREFIX[fam], vx, V3_ORDER))
            yield b, vs, ALL

    return Rel("a.v%s.modified=base" % fam, fam, spaces.v3_base_all(), expand)


V2_EQUIV = {"E": "H", "RL": "U", "RC": "C", "CDP": "N", "TD": "H", "CR": "M", "IR": "M", "AR": "M"}
V2_OTHER = {"E": "POC", "RL": "TF", "RC": "UR", "CDP": "LM", "TD": "M", "CR": "H", "IR": "L", "AR": "H"}
V3_EQUIV = {"E": "H", "RL": "U", "RC": "C", "CR": "M", "IR": "M", "AR": "M"}
V3_OTHER = {"E": "P", "RL": "T", "RC": "R", "CR": "H", "IR": "L", "AR": "H"}
V4_EQUIV = {"E": "A", "CR": "H", "IR": "H", "AR": "H"}
V4_OTHER = {"E": "P", "CR": "M", "IR": "L", "AR": "M"}


def _rel_b(name, fam, outer, order, equiv, other, nd, extra=None):
    """(b) for every subset S of the eligible metrics: S not defined (absent) vs S = equivalent
    value vs S = explicit ND/X; the metrics outside S carry a defined non-equivalent value.
    Only slots defined in the baseline are compared (a v2 None may legitimately become a number)."""
    ms = list(equiv)

    def expand(part):
        _, base = part
        for sub in subsets(ms):
            asg = dict(base)
            if extra:
                asg.update(extra)
            for m in ms:
                if m not in sub:
                    asg[m] = other[m]
            if not sub:
                continue
            v1 = dict(asg)
            v2 = dict(asg)
            for m in sub:
                v1[m] = equiv[m]
                v2[m] = nd
            yield (spell(T.PREFIX[fam], asg, order),
                   [spell(T.PREFIX[fam], v1, order), spell(T.PREFIX[fam], v2, order)], ALL)

    return Rel(name, fam, outer, expand)


def v4_base_set(tier):
    """Base vectors for the v4 relations. quick: skeleton of the exploitability groups x all 27
    (VC,VI,VA) x skeleton of (SC,SI,SA) (Safety excluded: base metrics have no S); thorough: all."""
    if tier == "thorough":
        return parts(T.V4_BASE, T.V4)
    g1 = spaces.v4_group_parts(spaces.V4_G["g1"], only=spaces.v4_skeleton("g1", "mid"))
    g2 = spaces.v4_group_parts(spaces.V4_G["g2"])
    vv = spaces.v4_group_parts(("VC", "VI", "VA"))
    g4 = [p for p in spaces.v4_group_parts(spaces.V4_G["g4"], only=spaces.v4_skeleton("g4", "wide"))
          if "MSI" not in p[1] and "MSA" not in p[1]]
    return spaces.cross(spaces.cross(g1, g2), spaces.cross(vv, g4))


def rel_a_v4(tier):
    mods = T.V4_MODIFIED

    def expand(part):
        _, base = part
        for ctx in ({"E": "P", "CR": "M", "IR": "L", "AR": "H"}, {}):
            asg = dict(base, **ctx)
            b = spell(T.PREFIX["4.0"], asg, V4_ORDER)
            allx = dict(asg, **dict((m, "X") for m in mods))
            vs = [spell(T.PREFIX["4.0"], allx, V4_ORDER)]
            subs = [(m,) for m in mods] + [tuple(mods)] + [tuple(mods[:5]), tuple(mods[5:])]
            for sub in subs:
                if not sub:
                    continue
                v = dict(asg)
                for m in sub:
                    v[m] = base[m[1:]]
                vs.append(spell(T.PREFIX["4.0"], v, V4_ORDER))
            yield b, vs, (0,)

    def expand_all(part):
        _, base = part
        asg = dict(base, E="U", CR="L", IR="M")
        vs = []
        for sub in subsets(mods):
            if sub:
                vs.append(spell(T.PREFIX["4.0"], dict(asg, **dict((m, base[m[1:]]) for m in sub)),
                                V4_ORDER))
        yield spell(T.PREFIX["4.0"], asg, V4_ORDER), vs, (0,)

    small = v4_base_set("quick")
    small = spaces.thin(small, 17) if tier == "thorough" else spaces.thin(small, 101)
    return [Rel("a.v4.modified=base", "4.0", v4_base_set(tier), expand),
            Rel("a.v4.modified=base.all_2048_subsets", "4.0", small, expand_all)]


def rel_b_v4(tier):
    outer = v4_base_set(tier)
    # with and without Safety delivered through MSI/MSA
    r1 = _rel_b("b.v4.X=equivalent", "4.0", outer, V4_ORDER, V4_EQUIV, V4_OTHER, "X")
    r2 = _rel_b("b.v4.X=equivalent+safety", "4.0", outer if tier == "thorough" else spaces.thin(outer, 7),
                V4_ORDER, V4_EQUIV, V4_OTHER, "X", extra={"MSI": "S", "MSA": "H"})
    return [r1, r2]


SUPP = T.V4_SUPPLEMENTAL


def rel_c_v4(tier):
    """(c) supplemental metrics added / changed / removed."""
    singles = [{m: v} for m in SUPP for v in T.V4[m]]
    allsp = [d for _, d in parts(SUPP, dict((m, [None] + T.V4[m]) for m in SUPP))]  # 9,600 incl. absent

    def expand_single(part):
        _, base = part
        for ctx in ({}, {"E": "U", "CR": "L", "MSI": "S", "MAV": "L"}):
            asg = dict(base, **ctx)
            yield (spell(T.PREFIX["4.0"], asg, V4_ORDER),
                   [spell(T.PREFIX["4.0"], dict(asg, **s), V4_ORDER) for s in singles], (0,))

    def expand_all(part):
        _, base = part
        yield (spell(T.PREFIX["4.0"], base, V4_ORDER),
               [spell(T.PREFIX["4.0"], dict(base, **s), V4_ORDER) for s in allsp if s], (0,))

    # a set hitting every macrovector: skeleton "min" of every group, short spelling
    full = [spaces.v4_group_parts(spaces.V4_G[g], only=spaces.v4_skeleton(g, "min"))
            for g in ("g1", "g2", "g36", "g4")] + [spaces.v4_group_parts(("E",))]
    macro = spaces.cross(spaces.cross(full[0], full[1]), spaces.cross(spaces.cross(full[2], full[3]), full[4]))
    if tier != "thorough":
        macro = spaces.thin(macro, 27)
    return [Rel("c.v4.single_supplemental", "4.0", v4_base_set(tier), expand_single),
            Rel("c.v4.all_supplemental_spellings", "4.0", macro, expand_all)]


def _hamming1(base, table, metrics):
    out = []
    for m in metrics:
        for v in table[m]:
            if v != base[m]:
                out.append(dict(base, **{m: v}))
    return out


def rel_d_v3(fam, tier):
    """(d) all eight modified metrics explicit: the environmental score is a function of the
    modified assignment alone; partial override: changing an overridden base metric."""
    bases_all = [d for _, d in spaces.v3_base_all()]
    ctx = {"E": "F", "RL": "W", "RC": "R", "CR": "H", "IR": "M", "AR": "L"}

    def expand(part):
        frag, val = part
        order = _alt(frag, V3_ORDER, V3_MODFIRST)
        mod = dict(("M" + m, v) for m, v in val.items())
        ref_base = val  # baseline: base == modified values
        asg = dict(ref_base, **mod)
        asg.update(ctx)
        if tier == "thorough":
            others = bases_all
        else:
            comp = dict((m, T.V3[m][(T.V3[m].index(v) + 1) % len(T.V3[m])]) for m, v in val.items())
            others = _hamming1(ref_base, T.V3, T.V3_BASE) + [comp]
        vs = [spell(T.PREFIX[fam], dict(asg, **o), order) for o in others]
        yield spell(T.PREFIX[fam], asg, order), vs, (2,)

    def expand_partial(part):
        frag, base = part
        order = _alt(frag, V3_ORDER, V3_MODFIRST)
        for sub in subsets(T.V3_MODIFIED, 2):
            if not sub:
                continue
            mod = dict((m, T.V3[m[1:]][(T.V3[m[1:]].index(base[m[1:]]) + 1) % len(T.V3[m[1:]])])
                       for m in sub)
            asg = dict(base, **mod)
            asg.update(ctx)
            vs = []
            for m in sub:
                for v in T.V3[m[1:]]:
                    if v != base[m[1:]]:
                        vs.append(spell(T.PREFIX[fam], dict(asg, **{m[1:]: v}), order))
            yield spell(T.PREFIX[fam], asg, order), vs, (2,)

    outer_p = spaces.v3_base_all()
    if tier != "thorough":
        outer_p = spaces.thin(outer_p, 5)
    return [Rel("d.v%s.full_override" % fam, fam, spaces.v3_base_all(), expand),
            Rel("d.v%s.partial_override" % fam, fam, outer_p, expand_partial)]


def rel_d_v4(tier):
    ctx = {"E": "P", "CR": "M", "IR": "H", "AR": "L"}
    outer = v4_base_set(tier)

    def expand(part):
        frag, val = part
        order = _alt(frag, V4_ORDER, V4_MODFIRST)
        mod = dict(("M" + m, v) for m, v in val.items())
        asg = dict(val, **mod)
        asg.update(ctx)
        comp1 = dict((m, T.V4[m][(T.V4[m].index(v) + 1) % len(T.V4[m])]) for m, v in val.items())
        comp2 = dict((m, T.V4[m][(T.V4[m].index(v) - 1) % len(T.V4[m])]) for m, v in val.items())
        others = [comp1, comp2] + _hamming1(val, T.V4, T.V4_BASE)
        base_line = spell(T.PREFIX["4.0"], asg, order)
        vs = [spell(T.PREFIX["4.0"], dict(asg, **o), order) for o in others]
        # the same under Safety delivered by MSI/MSA
        asg_s = dict(asg, MSI="S", MSA="S")
        yield base_line, vs, (0,)
        yield (spell(T.PREFIX["4.0"], asg_s, order),
               [spell(T.PREFIX["4.0"], dict(asg_s, **o), order) for o in others[:2]], (0,))

    def expand_partial(part):
        frag, base = part
        order = _alt(frag, V4_ORDER, V4_MODFIRST)
        for sub in subsets(T.V4_MODIFIED, 2 if tier == "thorough" else 1):
            if not sub:
                continue
            mod = dict((m, T.V4[m[1:]][(T.V4[m[1:]].index(base[m[1:]]) + 1) % len(T.V4[m[1:]])])
                       for m in sub)
            asg = dict(base, **mod)
            vs = []
            for m in sub:
                for v in T.V4[m[1:]]:
                    if v != base[m[1:]]:
                        vs.append(spell(T.PREFIX["4.0"], dict(asg, **{m[1:]: v}), order))
            yield spell(T.PREFIX["4.0"], asg, order), vs, (0,)

    return [Rel("d.v4.full_override", "4.0", outer, expand),
            Rel("d.v4.partial_override", "4.0", outer if tier == "thorough" else spaces.thin(outer, 3),
                expand_partial)]


def rel_e(fam, tier):
    """(e) temporal/environmental metrics never move the base score, environmental metrics never
    the temporal score."""
    if fam == "2":
        outer, order = spaces.v2_base_all(), V2_ORDER
        tsp = [d for _, d in spaces.v2_temporal_spellings()]
        env_m, table = T.V2_ENV, T.V2
    else:
        outer, order = spaces.v3_base_all(), V3_ORDER
        tsp = [d for _, d in parts(T.V3_TEMPORAL, dict((m, [None] + T.V3[m]) for m in T.V3_TEMPORAL))]
        env_m, table = T.V3_ENV, T.V3
    env1 = [{}] + [{m: v} for m in env_m for v in table[m]]
    env2 = [dict(a, **b) for a, b in itertools.combinations(env1[1:], 2) if set(a) != set(b)]
    one_t = tsp[len(tsp) // 2]

    def expand(part):
        _, base = part
        b = spell(T.PREFIX[fam], base, order)
        # base slot: all temporal spellings x Hamming<=1 environmental spellings
        vs = []
        for t in tsp:
            for e in (env1 if tier == "thorough" else env1[::4]):
                if t or e:
                    vs.append(spell(T.PREFIX[fam], dict(dict(base, **t), **e), order))
        yield b, vs, (0,)
        # temporal slot: fixed temporal, environmental Hamming <= 2
        bt = dict(base, **one_t)
        es = env1[1:] + (env2 if tier == "thorough" else env2[::9])
        yield (spell(T.PREFIX[fam], bt, order),
               [spell(T.PREFIX[fam], dict(bt, **e), order) for e in es], (0, 1))

    if tier != "thorough":
        outer = spaces.thin(outer, 9) if fam == "2" else spaces.thin(outer, 27)
    return Rel("e.v%s.base_and_temporal_slots" % fam, fam, outer, expand)


def _thin(rel, tier, fam, step=4):
    """quick tier: the v3.0 copy of a minor-independent relation runs on every `step`-th base."""
    if tier != "thorough" and fam == "3.0":
        rel.outer = rel.outer[::step]
    return rel


def relations(tier):
    rels = []
    for fam in ("3.0", "3.1"):
        rels.append(_thin(rel_a_v3(fam, tier), tier, fam))
    rels += rel_a_v4(tier)
    rels.append(_rel_b("b.v2.ND=equivalent", "2", spaces.v2_base_all(), V2_ORDER, V2_EQUIV,
                       V2_OTHER, "ND"))
    for fam in ("3.0", "3.1"):
        rels.append(_thin(_rel_b("b.v%s.X=equivalent" % fam, fam, spaces.v3_base_all(), V3_ORDER,
                                 V3_EQUIV, V3_OTHER, "X"), tier, fam))
    rels += rel_b_v4(tier)
    rels += rel_c_v4(tier)
    for fam in ("3.0", "3.1"):
        rels += rel_d_v3(fam, tier)
    rels += rel_d_v4(tier)
    for fam in ("2", "3.0", "3.1"):
        rels.append(rel_e(fam, tier))
    return rels


# ------------------------------------------------------------------ execution

_RELS = None


def scores_of(fam, vec):
    import cvss

    return getattr(cvss, T.CLASSNAME[fam])(vec).scores()


def check_group(fam, base, variants, slots):
    """Returns list of (variant, slot, base score, variant score) that differ."""
    out = []
    sb = scores_of(fam, base)
    for v in variants:
        sv = scores_of(fam, v)
        for s in slots:
            if s < len(sb) and sb[s] is not None and sv[s] != sb[s]:
                out.append((v, s, sb[s], sv[s]))
    return out, sb


def _task(t):
    ri, lo, hi = t
    rel = _RELS[ri]
    acc = sweep.new_acc()
    for item in rel.outer[lo:hi]:
        for base, variants, slots in rel.expand(item):
            acc["n"] += 1 + len(variants)
            acc["calls"] += 2 * (1 + len(variants))
            try:
                diffs, sb = check_group(rel.family, base, variants, slots)
            except Exception as e:  # noqa
                sweep.bad(acc, {"what": "%s: %s raised on %r or a variant: %s" % (
                    rel.name, type(e).__name__, base, e), "kind": "raise", "family": rel.family,
                    "relation": rel.name, "input": [base] + variants[:50], "slots": list(slots),
                    "signature": {"kind": "raise"}})
                continue
            acc["cmp"] += len(variants) * len(slots)
            if sb[0] != 0.0:
                acc["nontrivial"] += len(variants)
            for v, s, x, y in diffs[:2]:
                sweep.bad(acc, {"what": "%s: slot %d is %r for %r but %r for %r" % (
                    rel.name, s, x, base, y, v), "kind": "interference", "family": rel.family,
                    "relation": rel.name, "input": [base, v], "slots": [s],
                    "signature": {"kind": "interference", "relation": rel.name.split(".")[0]}})
            acc["nbad"] += max(0, len(diffs) - 2)
            if not acc["samples"]:
                acc["samples"].append({"relation": rel.name, "baseline": base,
                                       "variant": variants[0], "slots": list(slots)})
    acc["extra"] = {rel.name: acc["n"]}
    return acc


# ------------------------------------------------------------------ the relations around interaction rows

ROWS = {"quick": {"2": 20000, "3.0": 10000, "3.1": 10000, "4.0": 6000},
        "thorough": {"2": 200000, "3.0": 100000, "3.1": 100000, "4.0": 60000}}


def row_groups(fam, asg):
    """(relation, baseline assignment, [variant assignments], slots) for every substitution the
    statement declares ineffective, applied to one vector in which all metric groups vary."""
    nd = T.ND[fam]
    tab = T.METRICS[fam]
    major = fam[0]
    mods = {"2": [], "3": T.V3_MODIFIED, "4": T.V4_MODIFIED}[major]
    equiv = {"2": V2_EQUIV, "3": V3_EQUIV, "4": V4_EQUIV}[major]
    out = []
    if mods:
        # (a) a Not Defined modified metric set to its base metric's value
        free = [m for m in mods if asg.get(m, nd) == nd and asg[m[1:]] in tab[m]]
        vs = [dict(asg, **{m: asg[m[1:]]}) for m in free]
        if len(free) > 1:
            vs.append(dict(asg, **dict((m, asg[m[1:]]) for m in free)))
        if vs:
            out.append(("a", asg, vs, ALL))
        # (d) a base metric overridden by a defined modified metric
        vs = []
        for m in mods:
            if asg.get(m, nd) != nd:
                b = m[1:]
                vs += [dict(asg, **{b: v}) for v in tab[b] if v != asg[b]]
        if vs:
            out.append(("d", asg, vs, (2,) if major == "3" else (0,)))
    # (b) a Not Defined metric set to the value the specification declares equivalent
    free = [m for m in equiv if asg.get(m, nd) == nd]
    vs = [dict(asg, **{m: equiv[m]}) for m in free]
    if len(free) > 1:
        vs.append(dict(asg, **dict((m, equiv[m]) for m in free)))
    if vs:
        out.append(("b", asg, vs, ALL))
    if major == "4":
        # (c) supplemental metrics added, changed, removed
        vs = []
        for m in T.V4_SUPPLEMENTAL:
            vs += [dict(asg, **{m: v}) for v in tab[m] if v != asg.get(m)]
            if m in asg:
                vs.append(dict((k, v) for k, v in asg.items() if k != m))
        out.append(("c", asg, vs, (0,)))
    else:
        # (e) temporal metrics never change the base score, environmental ones neither base nor temporal
        temporal = T.V2_TEMPORAL if major == "2" else T.V3_TEMPORAL
        env = T.V2_ENV if major == "2" else T.V3_ENV
        for group, slots in ((temporal, (0,)), (env, (0, 1))):
            vs = []
            for m in group:
                vs += [dict(asg, **{m: v}) for v in tab[m] if v != asg.get(m)]
                if m in asg:
                    vs.append(dict((k, v) for k, v in asg.items() if k != m))
            out.append(("e", asg, vs, slots))
    return out


def _maxima_task(t):
    """Relations (b) and (d) around the written highest-severity vectors of every macrovector
    (spaces.v4_written_maxima_block) with one Modified metric defined: changing the overridden
    base metric, and leaving out E / CR / IR / AR where the written value is the one the
    specification declares equivalent to Not Defined, must not change the score."""
    lo, hi = t
    from ..engine import product
    blk = spaces.v4_written_maxima_block()
    blk.prefix = T.PREFIX["4.0"]
    acc = sweep.new_acc()
    nC = len(blk.C)
    for ab in range(lo, hi):
        for ic in range(nC):
            vec, asg = product._point(blk, ab, ic)
            f = vec[len(blk.prefix):].split("/")
            names = [x.split(":")[0] for x in f]
            f = [x for i, x in enumerate(f) if names[i] not in names[i + 1:]]
            asg = dict(x.split(":") for x in f)
            base = blk.prefix + "/".join(f)
            groups = []
            mods = [m for m in asg if m in T.V4_MODIFIED]
            vs = []
            for m in mods:
                b = m[1:]
                vs += [blk.prefix + "/".join("%s:%s" % (k, (v if k != b else nv)) for k, v in (x.split(":") for x in f))
                       for nv in T.V4[b] if nv != asg[b]]
            if vs:
                groups.append(("d", vs))
            eq = [m for m in V4_EQUIV if asg.get(m) == V4_EQUIV[m]]
            vs = [blk.prefix + "/".join(x for x in f if x.split(":")[0] != m) for m in eq]
            if len(eq) > 1:
                vs.append(blk.prefix + "/".join(x for x in f if x.split(":")[0] not in eq))
            if vs:
                groups.append(("b", vs))
            for rel, vs in groups:
                name = "%s.v4.written_highest_severity_vectors" % rel
                acc["n"] += 1 + len(vs)
                acc["calls"] += 2 * (1 + len(vs))
                try:
                    diffs, sb = check_group("4.0", base, vs, (0,))
                except Exception as e:  # noqa
                    sweep.bad(acc, {"what": "%s: %s raised on %r or a variant: %s" % (name, type(e).__name__, base, e),
                                    "kind": "raise", "family": "4.0", "relation": name, "input": [base] + vs[:50],
                                    "slots": [0], "signature": {"kind": "raise"}})
                    continue
                acc["cmp"] += len(vs)
                acc["nontrivial"] += len(vs)
                for v, s_, x, y in diffs[:2]:
                    sweep.bad(acc, {"what": "%s: slot %d is %r for %r but %r for %r" % (name, s_, x, base, y, v),
                                    "kind": "interference", "family": "4.0", "relation": name, "input": [base, v],
                                    "slots": [s_], "signature": {"kind": "interference", "relation": rel}})
                acc["nbad"] += max(0, len(diffs) - 2)
    acc["extra"] = {"maxima.v4": acc["n"]}
    return acc


def _row_task(t):
    fam, lo, hi = t
    acc = sweep.new_acc()
    doms = spaces._domains(fam)
    order = [m for m, _ in doms]
    P = T.PREFIX[fam]
    for k in range(lo, hi):
        asg = spaces.interaction_row(fam, k, doms)
        for rel, base_asg, variants, slots in row_groups(fam, asg):
            base = spell(P, base_asg, order)
            vs = [spell(P, v, order) for v in variants]
            acc["n"] += 1 + len(vs)
            acc["calls"] += 2 * (1 + len(vs))
            name = "%s.v%s.interaction_rows" % (rel, fam)
            try:
                diffs, sb = check_group(fam, base, vs, slots)
            except Exception as e:  # noqa
                sweep.bad(acc, {"what": "%s: %s raised on %r or a variant: %s" % (name, type(e).__name__, base, e),
                                "kind": "raise", "family": fam, "relation": name, "input": [base] + vs[:50],
                                "slots": list(slots), "signature": {"kind": "raise"}})
                continue
            acc["cmp"] += len(vs) * len(slots)
            if sb[0] != 0.0:
                acc["nontrivial"] += len(vs)
            for v, s_, x, y in diffs[:2]:
                sweep.bad(acc, {"what": "%s: slot %d is %r for %r but %r for %r" % (name, s_, x, base, y, v),
                                "kind": "interference", "family": fam, "relation": name, "input": [base, v],
                                "slots": [s_], "signature": {"kind": "interference", "relation": rel}})
            acc["nbad"] += max(0, len(diffs) - 2)
    acc["extra"] = {"rows.v%s" % fam: acc["n"]}
    return acc


def run(ctx, res):
    global _RELS
    _RELS = relations(ctx.tier)
    tasks = []
    for ri, r in enumerate(_RELS):
        for lo, hi in core.split_range(len(r.outer), 48):
            tasks.append((ri, lo, hi))
    order = ctx.rot(range(len(tasks)))
    accs = core.task_map(_task, [tasks[i] for i in order])
    accs = [a for _, a in sorted(zip(order, accs), key=lambda p: p[0])]
    rtasks = []
    for fam in T.FAMILIES:
        for lo, hi in core.split_range(ROWS[ctx.tier][fam], 24):
            rtasks.append((fam, lo, hi))
    accs += core.task_map(_row_task, rtasks)
    mb = spaces.v4_written_maxima_block()
    accs += core.task_map(_maxima_task, core.split_range(len(mb.A) * len(mb.B), 32))
    res.coverage["interaction_rows"] = ROWS[ctx.tier]
    tot = sweep.merge(accs)
    per = {}
    for a in accs:
        for k, v in a["extra"].items():
            per[k] = per.get(k, 0) + v
    cov = res.coverage
    cov["states"] = tot["n"]
    cov["transitions"] = tot["cmp"]
    cov["traces_validated_against_impl"] = tot["cmp"]
    cov["evaluations"] = tot["n"]
    cov["distinct_nontrivial"] = tot["nontrivial"]
    cov["vectors_per_relation"] = per
    cov["rule"] = ("states = vectors constructed with the real classes; transitions = (baseline, "
                   "variant, slot) edges of the five substitution relations, each checked for an "
                   "unchanged score; non-trivial = variant edges whose baseline base score is not 0.0")
    cov["exhaustive"] = True
    cov["samples"] = ctx.rot(tot["samples"])[:8]
    cov["bound"] = ("complete per metric-subset for v2/v3 (all base vectors); v4: all 104,976 base "
                    "vectors for single substitutions" if ctx.thorough else
                    "complete per metric-subset for v2/v3 on all base vectors; v4 on a base skeleton "
                    "(exploitability skeleton x all 27 VC/VI/VA x SC/SI/SA skeleton)")
    for c in tot["bad"]:
        res.add_violation(c)
    cov["violating_cases_total"] = tot["nbad"]


def replay(case):
    fam = case["family"]
    vecs = case["input"]
    try:
        diffs, sb = check_group(fam, vecs[0], vecs[1:], case["slots"])
    except Exception as e:  # noqa
        return True, "raised %s: %s" % (type(e).__name__, e)
    return bool(diffs), ("differs: %r" % (diffs[:2],)) if diffs else "slots equal"


def _setup_replay(case):
    global _RELS
    _RELS = relations(case.get("tier") or "quick")


def replay_task(case):
    return core.replay_func_task(case, _setup_replay)
