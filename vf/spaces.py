"""
Named, finite input spaces (lists of product blocks) shared by the E1 checks.
Everything here is built from the reference tables, never from /repo.
"""

import hashlib
import zlib

from .engine.product import Block, LazyParts, parts
from .ref import tables as T

ABSENT = [("", {})]


# =============================================================================== v2

def v2_base_all():
    return parts(T.V2_BASE, T.V2)


def v2_base_skeleton():
    """27 impact combinations x {least, most} exploitable."""
    d = dict(T.V2)
    out = []
    for av, ac, au in (("L", "H", "M"), ("N", "L", "N")):
        dd = dict(d, AV=[av], AC=[ac], Au=[au])
        out += parts(T.V2_BASE, dd)
    return out


def v2_temporal_effective():
    """48 fully explicit temporal assignments (no ND)."""
    return parts(T.V2_TEMPORAL, dict((m, [v for v in T.V2[m] if v != "ND"]) for m in T.V2_TEMPORAL))


def v2_env_effective():
    return parts(T.V2_ENV, dict((m, [v for v in T.V2[m] if v != "ND"]) for m in T.V2_ENV))


def v2_temporal_spellings():
    """absent / ND / each value, per metric: 6*6*5 = 180."""
    return parts(T.V2_TEMPORAL, dict((m, [None] + T.V2[m]) for m in T.V2_TEMPORAL))


def v2_env_spellings():
    """7*6*5*5*5 = 5250."""
    return parts(T.V2_ENV, dict((m, [None] + T.V2[m]) for m in T.V2_ENV))


def _pick(plist, wanted):
    """Sub-list of parts whose assignment equals one of the wanted dicts."""
    out = []
    for w in wanted:
        for p in plist:
            if p[1] == w:
                out.append(p)
                break
        else:
            raise KeyError(w)
    return out


def v2_temporal_skeleton():
    te = v2_temporal_effective()
    return ABSENT + _pick(te, [
        {"E": "U", "RL": "OF", "RC": "UC"}, {"E": "H", "RL": "U", "RC": "C"},
        {"E": "POC", "RL": "TF", "RC": "UR"}, {"E": "F", "RL": "W", "RC": "C"},
        {"E": "U", "RL": "U", "RC": "C"}, {"E": "H", "RL": "OF", "RC": "C"},
        {"E": "H", "RL": "U", "RC": "UC"},
    ])


def v2_env_skeleton():
    ee = v2_env_effective()
    mk = lambda cdp, td, cr, ir, ar: {"CDP": cdp, "TD": td, "CR": cr, "IR": ir, "AR": ar}
    return ABSENT + _pick(ee, [
        mk("N", "H", "M", "M", "M"), mk("N", "N", "M", "M", "M"), mk("H", "H", "H", "H", "H"),
        mk("N", "H", "L", "L", "L"), mk("L", "L", "L", "M", "H"), mk("LM", "M", "H", "L", "M"),
        mk("MH", "H", "M", "H", "L"), mk("H", "L", "L", "L", "L"), mk("N", "H", "H", "H", "H"),
        mk("L", "H", "L", "L", "L"), mk("N", "M", "H", "M", "L"),
    ])


def v2_env_partial():
    """Environmental spellings in which the requirement metrics are absent or explicitly ND while
    CDP / TD vary (and vice versa): the 'all requirements Not Defined' paths on every base vector."""
    out = []
    for cdp in (None, "ND", "N", "L", "H"):
        for td in (None, "ND", "N", "M", "H"):
            for req in ({}, {"CR": "ND", "IR": "ND", "AR": "ND"}, {"CR": "ND"}, {"AR": "H"}, {"IR": "L", "AR": "ND"}):
                d = {}
                if cdp:
                    d["CDP"] = cdp
                if td:
                    d["TD"] = td
                d.update(req)
                if d:
                    out.append(("/".join("%s:%s" % (m, d[m]) for m in T.V2_ENV if m in d), d))
    return out


def v2_blocks(tier):
    """Score space of C03: quick = <=1 free group around the skeleton (+ base x each group);
    thorough = the full 729 x 49 x 541 product. Both include the spelling blocks."""
    ba, bs = v2_base_all(), v2_base_skeleton()
    ta, ts = ABSENT + v2_temporal_effective(), v2_temporal_skeleton()
    ea, es = ABSENT + v2_env_effective(), v2_env_skeleton()
    blocks = []
    if tier == "thorough":
        blocks.append(Block("v2.full", "2", ba, ta, ea))
    else:
        blocks.append(Block("v2.base_free", "2", ba, ts, es))
        blocks.append(Block("v2.temporal_free", "2", bs, ta, es))
        blocks.append(Block("v2.env_free", "2", bs, ts, ea))
        blocks.append(Block("v2.base_x_temporal", "2", ba, ta, ABSENT))
        blocks.append(Block("v2.base_x_env", "2", ba, ABSENT, ea))
    blocks.append(Block("v2.base_x_env_partial", "2", ba, ts[:3], v2_env_partial()))
    blocks += v2_spelling_blocks()
    return blocks


def v2_impact27():
    return parts(T.V2_BASE, dict(T.V2, AV=["A"], AC=["M"], Au=["S"]))


def v2_spelling_blocks():
    b27 = v2_impact27()
    one_t = _pick(v2_temporal_effective(), [{"E": "F", "RL": "W", "RC": "UR"}])
    one_e = _pick(v2_env_effective(), [{"CDP": "LM", "TD": "M", "CR": "H", "IR": "L", "AR": "M"}])
    return [
        Block("v2.temporal_spellings", "2", b27, v2_temporal_spellings(), ABSENT + one_e),
        Block("v2.env_spellings", "2", b27, ABSENT + one_t, v2_env_spellings()),
    ]


# =============================================================================== v3

def v3_base_all():
    return parts(T.V3_BASE, T.V3)


def v3_temporal_spellings():
    """All 100 fully explicit temporal spellings (X included), the bare base vector, and every
    single temporal metric alone."""
    out = parts(T.V3_TEMPORAL, T.V3) + [("", {})]
    for m in T.V3_TEMPORAL:
        for v in T.V3[m]:
            out.append(("%s:%s" % (m, v), {m: v}))
    return out


def v3_temporal_effective():
    """48 effective temporal assignments; the value equivalent to X (E:H, RL:U, RC:C) is realised
    by leaving the metric out, so that absent metrics are exercised too."""
    dom = {"E": [None, "F", "P", "U"], "RL": [None, "W", "T", "O"], "RC": [None, "R", "U"]}
    return parts(T.V3_TEMPORAL, dom)


def v3_temporal_skeleton(n=12):
    te = v3_temporal_effective()
    want = [{}, {"E": "U", "RL": "O", "RC": "U"}, {"E": "F"}, {"RL": "T"}, {"RC": "R"},
            {"E": "P", "RL": "W", "RC": "R"}, {"E": "U"}, {"RL": "O"}, {"RC": "U"},
            {"E": "F", "RL": "T", "RC": "U"}, {"E": "P", "RL": "O"}, {"E": "U", "RC": "R"}]
    return _pick(te, want[:n])


def v3_req_all():
    return parts(["CR", "IR", "AR"], dict((m, ["H", "M", "L"]) for m in ("CR", "IR", "AR")))


_V3_MOD = [("MAV", "AV"), ("MAC", "AC"), ("MPR", "PR"), ("MUI", "UI"), ("MS", "S"), ("MC", "C"),
           ("MI", "I"), ("MA", "A")]


def v3_modified_over_complementary_base():
    """2,592 parts: every explicit assignment of the eight modified metrics, each on top of a base
    vector in which *every* base metric differs from its modified value."""
    out = []
    for frag, d in parts(T.V3_BASE, T.V3):
        base = {}
        mod = {}
        for mm, bm in _V3_MOD:
            v = d[bm]
            dom = T.V3[bm]
            base[bm] = dom[(dom.index(v) + 1) % len(dom)]
            mod[mm] = v
        asg = dict(base)
        asg.update(mod)
        f = "/".join("%s:%s" % (m, base[m]) for m in T.V3_BASE) + "/" + \
            "/".join("%s:%s" % (mm, mod[mm]) for mm, _ in _V3_MOD)
        out.append((f, asg))
    return out


def v3_modified_pairs(tier):
    """Partial overrides: for pairs of modified metrics every combination of states (absent, X, each
    value), all other modified metrics absent. quick: the pairs that involve MS (scope interplay
    with the Privileges Required weight); thorough: all 28 pairs."""
    mods = T.V3_MODIFIED
    out, seen = [], set()
    for i, m1 in enumerate(mods):
        for m2 in mods[i + 1:]:
            if tier != "thorough" and "MS" not in (m1, m2):
                continue
            for p in parts([m1, m2], {m1: [None] + T.V3[m1], m2: [None] + T.V3[m2]}):
                if p[0] not in seen:
                    seen.add(p[0])
                    out.append(p)
    return out


def v3_all_modified_x():
    f = "/".join("%s:X" % m for m in T.V3_MODIFIED)
    return [(fb + "/" + f, dict(db, **dict((m, "X") for m in T.V3_MODIFIED))) for fb, db in v3_base_all()]


def v3_blocks(tier, full_inherit=False):
    """Every block is enumerated under CVSS:3.0 with twin CVSS:3.1: each point is evaluated under
    both minor versions back to back (same process, same body)."""
    blocks = []
    ba = v3_base_all()
    req = v3_req_all()
    fam, twin = "3.0", "3.1"
    blocks.append(Block("v3.base_x_temporal_spellings", fam, ba, v3_temporal_spellings(), twin=twin))
    if tier == "thorough":
        blocks.append(Block("v3.inherit", fam, ba, v3_temporal_effective(), req, twin=twin))
        blocks.append(Block("v3.override", fam, v3_modified_over_complementary_base(),
                            v3_temporal_effective(), req, twin=twin))
    else:
        blocks.append(Block("v3.inherit", fam, ba, v3_temporal_effective() if full_inherit else v3_temporal_skeleton(12),
                            req, twin=twin))
        blocks.append(Block("v3.override", fam, v3_modified_over_complementary_base(),
                            v3_temporal_skeleton(4), req, twin=twin))
    one_req = _pick(req, [{"CR": "H", "IR": "L", "AR": "M"}])
    blocks.append(Block("v3.partial_override_pairs", fam, ba, v3_modified_pairs(tier),
                        one_req if tier != "thorough" else one_req + _pick(req, [{"CR": "L", "IR": "H", "AR": "H"}]),
                        twin=twin))
    blocks.append(Block("v3.all_modified_explicit_X", fam, v3_all_modified_x(),
                        v3_temporal_skeleton(3), req[::2] if tier != "thorough" else req, twin=twin))
    return blocks


# =============================================================================== v4

def cross(p1, p2):
    out = []
    for f1, d1 in p1:
        for f2, d2 in p2:
            d = dict(d1)
            d.update(d2)
            out.append(((f1 + "/" + f2) if (f1 and f2) else (f1 or f2), d))
    return out


_V4_SAFETY = {"SI": "MSI", "SA": "MSA"}
_V4_DEFAULT = {"E": "A", "CR": "H", "IR": "H", "AR": "H"}
V4_EFF_DOM = {
    "AV": ["N", "A", "L", "P"], "AC": ["L", "H"], "AT": ["N", "P"], "PR": ["N", "L", "H"],
    "UI": ["N", "P", "A"], "VC": ["H", "L", "N"], "VI": ["H", "L", "N"], "VA": ["H", "L", "N"],
    "SC": ["H", "L", "N"], "SI": ["S", "H", "L", "N"], "SA": ["S", "H", "L", "N"],
    "CR": ["H", "M", "L"], "IR": ["H", "M", "L"], "AR": ["H", "M", "L"], "E": ["A", "P", "U"],
}


def v4_part(eff, mode="short"):
    """One part realising the effective values `eff` (dict metric -> effective value).
    mode "short":    base metrics carry their values, Safety through MSI/MSA over SI:N/SA:N,
                     E/CR/IR/AR written only when not the default.
    mode "override": every value delivered through the M* metric over a base metric that differs;
                     defaults written as explicit X."""
    frags, d = [], {}

    def put(m, v):
        frags.append("%s:%s" % (m, v))
        d[m] = v

    for m in T.V4:  # spec order
        if m in eff and m in T.V4_BASE:
            v = eff[m]
            if mode == "short":
                put(m, "N" if v == "S" else v)
            else:
                dom = T.V4[m]
                put(m, dom[(dom.index(v) + 1) % len(dom)] if v != "S" else "H")
    for m in T.V4:
        if m in eff and m in _V4_DEFAULT:
            v = eff[m]
            if v == _V4_DEFAULT[m]:
                if mode == "override":
                    put(m, "X")
            else:
                put(m, v)
    for m in T.V4_BASE:
        if m in eff:
            v = eff[m]
            if mode == "override" or v == "S":
                put("M" + m, v)
    return ("/".join(frags), d)


def v4_group_parts(metrics, mode="short", only=None):
    import itertools
    out = []
    for vals in itertools.product(*[V4_EFF_DOM[m] for m in metrics]):
        if only is not None and vals not in only:
            continue
        out.append(v4_part(dict(zip(metrics, vals)), mode))
    return out


def v4_skeleton(group, size="wide"):
    """Representative members of a metric group. "wide": for every equivalence level all of its
    highest-severity vectors plus two of its lowest members; "mid": first highest-severity vector
    and one lowest member per level; "min": first highest-severity vector of every level."""
    from .ref import score4 as S
    table = {"g1": S.T1, "g2": S.T2, "g36": S.T36, "g4": S.T4}[group]
    levels = {}
    for vals, (lvl, dist) in sorted(table.items()):
        levels.setdefault(lvl, []).append((dist, vals))
    keep = set()
    for lvl, mem in levels.items():
        dmax = max(d for d, _ in mem)
        tops = sorted(v for d, v in mem if d == 0)
        low = sorted(v for d, v in mem if d == dmax)
        if size == "wide":
            keep |= set(tops) | set([low[0], low[-1]])
        elif size == "mid":
            keep |= set([tops[0], low[0]])
        else:
            keep.add(tops[0])
    return keep


V4_G = {"g1": ("AV", "PR", "UI"), "g2": ("AC", "AT"), "g36": ("VC", "VI", "VA", "CR", "IR", "AR"),
        "g4": ("SC", "SI", "SA"), "g5": ("E",)}


def v4_xmod_blocks(size=("min", "min")):
    """The quick short-spelling blocks again, flagged so that the visitor writes every Modified
    metric that the spelling does not use as an explicit X (see c02.visit)."""
    out = []
    for b in v4_blocks("quick", "short", size):
        if "g36_free" in b.name:
            b.A = b.A[::2]          # keep the explicit-X variant at a quarter of the short one
            b.C = b.C[::2] + b.C[-1:]
        blk = Block(b.name.replace("short", "xmod"), "4.0", b.A, b.B, b.C)
        blk.meta["xmod"] = True
        out.append(blk)
    return out


def v4_blocks(tier, mode="short", size=None):
    """thorough+short: the full 15,116,544-point product. Otherwise two blocks: the 729-point group
    {VC,VI,VA,CR,IR,AR} free over a skeleton of the other groups, and all other groups free at
    once over a skeleton of that group. `size` = (skeleton size of the small groups, of g36)."""
    tag = "v4.%s." % mode
    if tier == "thorough" and mode == "short":
        A = v4_group_parts(("AV", "AC", "AT", "PR", "UI"))
        B = v4_group_parts(("VC", "VI", "VA", "SC", "SI", "SA"))
        C = v4_group_parts(("E", "CR", "IR", "AR"))
        return [Block(tag + "full", "4.0", A, B, C)]
    s_small, s_36 = size or ("wide", "wide")
    if mode == "override" and s_small == "min":
        s_small = "mid"      # the lowest member of every level as well (e.g. SC/SI/SA all None)
    full = dict((g, v4_group_parts(V4_G[g], mode)) for g in V4_G)
    skel = dict((g, v4_group_parts(V4_G[g], mode, v4_skeleton(g, s_36 if g == "g36" else s_small)))
                for g in ("g1", "g2", "g36", "g4"))
    skel["g5"] = full["g5"]
    sel = lambda g, free: full[g] if g in free else skel[g]

    def blk(name, free):
        return Block(tag + name, "4.0", cross(sel("g1", free), sel("g2", free)), sel("g36", free),
                     cross(sel("g4", free), sel("g5", free)))

    return [blk("skeleton_x_g36_free", ("g36",)),
            blk("g1_g2_g4_g5_free_x_g36_skeleton", ("g1", "g2", "g4", "g5"))]


# =============================================================================== interaction rows
# Rows that cut across ALL metric groups at once: in row k every metric independently takes the
# value (or, if optional, "absent") that a fixed hash of (k, metric) selects, and the fields are
# written in one of four orders. The set is fixed (no random source); how many rows it takes until
# every combination of values of every t metrics has occurred is measured (interaction_coverage)
# and reported: the bound of these blocks is the interaction strength t, exhaustively.

INTERACTION_ROWS = {"quick": {"2": 60000, "3.0": 60000, "3.1": 60000, "4.0": 40000},
                    "thorough": {"2": 400000, "3.0": 400000, "3.1": 400000, "4.0": 300000}}


def _domains(fam):
    tab = T.METRICS[fam]
    mand = T.MANDATORY[fam]
    return [(m, list(tab[m]) if m in mand else [None] + list(tab[m])) for m in tab]


def interaction_row(fam, k, doms=None):
    doms = doms or _domains(fam)
    h = hashlib.sha512(("%s|%d" % (fam[0], k)).encode("ascii")).digest()     # one byte per metric
    asg = {}
    for i, (m, dom) in enumerate(doms):
        v = dom[(h[i] + 256 * h[63 - i]) % len(dom)]
        if v is not None:
            asg[m] = v
    return asg


def interaction_part(fam):
    doms = _domains(fam)
    names = [m for m, _ in doms]

    def part(k):
        asg = interaction_row(fam, k, doms)
        order = [m for m in names if m in asg]
        r = k % 4
        if r == 1:
            order = order[::-1]
        elif r == 2:
            order = order[len(order) // 2:] + order[:len(order) // 2]
        elif r == 3:
            order = order[1::2] + order[0::2]
        return "/".join("%s:%s" % (m, asg[m]) for m in order), asg
    return part


def interaction_block(fam, tier, twin=None, n=None):
    n = n or INTERACTION_ROWS[tier][fam]
    return Block("v%s.interaction_rows" % fam, fam, LazyParts(n, interaction_part(fam)), twin=twin,
                 meta={"interaction": True})


def _coverage_task(t):
    fam, strength, rows, lo, hi = t
    import itertools
    doms = _domains(fam)
    idx = dict((m, dict((v, i) for i, v in enumerate(dom))) for m, dom in doms)
    table = []
    for k in range(rows):
        a = interaction_row(fam, k, doms)
        table.append([idx[m][a.get(m)] for m, _ in doms])
    combos = list(itertools.combinations(range(len(doms)), strength))[lo:hi]
    total = covered = 0
    last_needed = 0
    for c in combos:
        want = 1
        for i in c:
            want *= len(doms[i][1])
        seen = set()
        for k, row in enumerate(table):
            key = tuple(row[i] for i in c)
            if key not in seen:
                seen.add(key)
                if len(seen) == want:
                    last_needed = max(last_needed, k + 1)
                    break
        total += want
        covered += len(seen)
    return total, covered, last_needed


def interaction_coverage(fam, strength, rows):
    """(combinations of values of `strength` metrics that exist, how many occur in the first `rows`
    rows, number of rows after which all occur - 0 if they do not all occur)."""
    import itertools
    from . import core
    n = len(list(itertools.combinations(range(len(_domains(fam))), strength)))
    outs = core.pool_map(_coverage_task, [(fam, strength, rows, lo, hi) for lo, hi in core.split_range(n, 64)])
    total = sum(o[0] for o in outs)
    covered = sum(o[1] for o in outs)
    return {"strength": strength, "value_combinations": total, "covered": covered,
            "rows_examined": rows, "rows_until_all_covered": max(o[2] for o in outs) if covered == total else None}


def v4_written_maxima_block():
    """Every highest-severity vector of every macrovector written out in full (base metrics, E and
    all three requirements explicit, Safety through MSI/MSA) - the vectors the specification's
    severity distances are measured from - combined with every single Modified metric at every
    value and with no Modified metric: a shortcut for "the vector is a highest-severity vector"
    that looks at what is written instead of at what is effective shows here."""
    from .ref import score4 as S4
    A = []
    for l1 in sorted(S4.MAX1):
        for (av, pr, ui) in S4.MAX1[l1]:
            for l2 in sorted(S4.MAX2):
                for (ac, at) in S4.MAX2[l2]:
                    d = {"AV": av, "PR": pr, "UI": ui, "AC": ac, "AT": at}
                    A.append(("/".join("%s:%s" % (m, d[m]) for m in ("AV", "AC", "AT", "PR", "UI")), d))
    B = []
    for l36 in sorted(S4.MAX36):
        for (vc, vi, va, cr, ir, ar) in S4.MAX36[l36]:
            for l4 in sorted(S4.MAX4):
                for (sc, si, sa) in S4.MAX4[l4]:
                    for e in ("A", "P", "U"):
                        d = {"VC": vc, "VI": vi, "VA": va, "SC": sc, "SI": si, "SA": sa, "E": e, "CR": cr, "IR": ir, "AR": ar}
                        extra = {}
                        for b in ("SI", "SA"):
                            if d[b] == "S":
                                d[b] = "H"
                                extra["M" + b] = "S"
                        d.update(extra)
                        order = ["VC", "VI", "VA", "SC", "SI", "SA", "E", "CR", "IR", "AR", "MSI", "MSA"]
                        B.append(("/".join("%s:%s" % (m, d[m]) for m in order if m in d), d))
    C = [("", {})]
    for m in T.V4_MODIFIED:
        for v in T.V4[m]:
            if v != "X":
                C.append(("%s:%s" % (m, v), {m: v}))
    return Block("v4.written_highest_severity_vectors_x_one_modified", "4.0", A, B, C, meta={"dedupe_fields": True})


def layout_block(fam, twin=None):
    """Points for the layout sweeps (engine: two_move_layouts): all 27 values of the three impact
    metrics x a few values of the other mandatory metrics, with one temporal / threat and two
    requirement metrics written out, so that optional fields can land among the mandatory ones."""
    tab = T.METRICS[fam]
    if fam == "2":
        imp, rest, opt = ["C", "I", "A"], {"AV": ["N", "L"], "AC": ["L"], "Au": ["N", "M"]}, "E:F/CR:L/IR:H"
    elif fam == "4.0":
        imp = ["VC", "VI", "VA"]
        rest = {"AV": ["N", "P"], "AC": ["L"], "AT": ["N"], "PR": ["N", "H"], "UI": ["N"], "SC": ["L"], "SI": ["H"], "SA": ["N"]}
        opt = "E:P/CR:L/IR:H"
    else:
        imp, rest, opt = ["C", "I", "A"], {"AV": ["N", "L"], "AC": ["L"], "PR": ["N", "H"], "UI": ["N"], "S": ["U", "C"]}, "E:P/CR:L/IR:H"
    mand = T.MANDATORY[fam]
    doms = dict((m, rest.get(m, tab[m] if m in imp else tab[m][:1])) for m in mand)
    A = parts(mand, doms)
    o = dict(f.split(":") for f in opt.split("/"))
    # the requirement metrics take each other's values in the second variant (values that coincide
    # when read in field order after two fields have changed places)
    swapped = dict(o, CR=o["IR"], IR=o["CR"])
    B = [(opt, o), ("/".join("%s:%s" % (m, swapped[m]) for m in o), swapped)]
    n = len(mand) + len(o)
    return Block("v%s.layout_sweep" % fam, fam, A, B, twin=twin, meta={"layouts": n})


def interaction_evidence(fams, tier):
    """Measured interaction strength of the interaction blocks of the given families."""
    out = {}
    for fam in fams:
        n = INTERACTION_ROWS[tier][fam]
        ev = {"rows": n, "t=3": interaction_coverage(fam, 3, min(n, 6000))}
        if fam != "4.0" or tier == "thorough":
            ev["t=4"] = interaction_coverage(fam, 4, min(n, 40000))
        out[fam] = ev
    return out


def thin(seq, k):
    """Every k-th element of a list of parts (or of assignment dicts) - with the stride raised
    until the thinned list still shows every (metric, value) pair and every 'metric absent' that
    the full list shows. A plain [::k] over a mixed-radix product silently pins the innermost
    metrics whenever k shares a factor with their domain sizes."""
    seq = list(seq)
    if k <= 1 or len(seq) <= k:
        return seq

    def toks(x):
        d = x[1] if isinstance(x, tuple) else x
        return set(d.items())

    allm = set(m for x in seq for m, _ in toks(x))

    def cover(xs):
        c = set()
        for x in xs:
            t = toks(x)
            c |= t
            c |= set(("absent", m) for m in allm - set(m for m, _ in t))
        return c

    want = cover(seq)
    for kk in range(k, 2 * k + 1):
        sub = seq[::kk]
        if cover(sub) == want:
            return sub
    sub = seq[::k]
    have = cover(sub)
    for x in seq:
        c = cover([x])
        if c - have:
            sub.append(x)
            have |= c
    return sub


def many_vectors(fam, n=6000):
    """n distinct accepted vectors of one family (distinct effective assignments), for the checks'
    scale phases: more objects in one process than any plausible bounded cache holds."""
    if fam == "2":
        vs = [T.PREFIX[fam] + "/".join(x for x in (fa, fb, fc) if x) for fa, _ in v2_base_all()
              for fb, _ in thin(v2_temporal_effective(), 4) for fc, _ in [("", {}), ("CDP:L/TD:M", {})]]
    elif fam == "4.0":
        vs = [T.PREFIX[fam] + f + e for f, _ in parts(T.V4_BASE, T.V4)[::19]
              for e in ("", "/E:P", "/CR:L/MAV:N", "/MSI:S/S:P", "/MVC:L/AR:H/U:Red")]
    else:
        vs = [T.PREFIX[fam] + f + e for f, _ in v3_base_all() for e in ("", "/E:P/RL:T", "/CR:H/MS:C")]
    step = max(1, len(vs) // n)
    return vs[::step][:n]
