"""
Named, finite input spaces (lists of product blocks) shared by the E1 checks.
Everything here is built from the reference tables, never from /repo.
"""

from .engine.product import Block, parts
from .ref import tables as T

ABSENT = [("", {})]


# =============================================================================== v2

def v2_base_all():
    return parts(T.V2_BASE, T.V2)


def v2_base_skeleton():
    """27 impact combinations x {least, most} exploitable."""
    d = dict(T.V2)
    out = []
    for av, ac, au in (("L", "H", "M"), ("N", "L", "N")):
        dd = dict(d, AV=[av], AC=[ac], Au=[au])
        out += parts(T.V2_BASE, dd)
    return out


def v2_temporal_effective():
    """48 fully explicit temporal assignments (no ND)."""
    return parts(T.V2_TEMPORAL, dict((m, [v for v in T.V2[m] if v != "ND"]) for m in T.V2_TEMPORAL))


def v2_env_effective():
    return parts(T.V2_ENV, dict((m, [v for v in T.V2[m] if v != "ND"]) for m in T.V2_ENV))


def v2_temporal_spellings():
    """absent / ND / each value, per metric: 6*6*5 = 180."""
    return parts(T.V2_TEMPORAL, dict((m, [None] + T.V2[m]) for m in T.V2_TEMPORAL))


def v2_env_spellings():
    """7*6*5*5*5 = 5250."""
    return parts(T.V2_ENV, dict((m, [None] + T.V2[m]) for m in T.V2_ENV))


def _pick(plist, wanted):
    """Sub-list of parts whose assignment equals one of the wanted dicts."""
    out = []
    for w in wanted:
        for p in plist:
            if p[1] == w:
                out.append(p)
                break
        else:
            raise KeyError(w)
    return out


def v2_temporal_skeleton():
    te = v2_temporal_effective()
    return ABSENT + _pick(te, [
        {"E": "U", "RL": "OF", "RC": "UC"}, {"E": "H", "RL": "U", "RC": "C"},
        {"E": "POC", "RL": "TF", "RC": "UR"}, {"E": "F", "RL": "W", "RC": "C"},
        {"E": "U", "RL": "U", "RC": "C"}, {"E": "H", "RL": "OF", "RC": "C"},
        {"E": "H", "RL": "U", "RC": "UC"},
    ])


def v2_env_skeleton():
    ee = v2_env_effective()
    mk = lambda cdp, td, cr, ir, ar: {"CDP": cdp, "TD": td, "CR": cr, "IR": ir, "AR": ar}
    return ABSENT + _pick(ee, [
        mk("N", "H", "M", "M", "M"), mk("N", "N", "M", "M", "M"), mk("H", "H", "H", "H", "H"),
        mk("N", "H", "L", "L", "L"), mk("L", "L", "L", "M", "H"), mk("LM", "M", "H", "L", "M"),
        mk("MH", "H", "M", "H", "L"), mk("H", "L", "L", "L", "L"), mk("N", "H", "H", "H", "H"),
        mk("L", "H", "L", "L", "L"), mk("N", "M", "H", "M", "L"),
    ])


def v2_blocks(tier):
    """Score space of C03: quick = <=1 free group around the skeleton (+ base x each group);
    thorough = the full 729 x 49 x 541 product. Both include the spelling blocks."""
    ba, bs = v2_base_all(), v2_base_skeleton()
    ta, ts = ABSENT + v2_temporal_effective(), v2_temporal_skeleton()
    ea, es = ABSENT + v2_env_effective(), v2_env_skeleton()
    blocks = []
    if tier == "thorough":
        blocks.append(Block("v2.full", "2", ba, ta, ea))
    else:
        blocks.append(Block("v2.base_free", "2", ba, ts, es))
        blocks.append(Block("v2.temporal_free", "2", bs, ta, es))
        blocks.append(Block("v2.env_free", "2", bs, ts, ea))
        blocks.append(Block("v2.base_x_temporal", "2", ba, ta, ABSENT))
        blocks.append(Block("v2.base_x_env", "2", ba, ABSENT, ea))
    blocks += v2_spelling_blocks()
    return blocks


def v2_impact27():
    return parts(T.V2_BASE, dict(T.V2, AV=["A"], AC=["M"], Au=["S"]))


def v2_spelling_blocks():
    b27 = v2_impact27()
    one_t = _pick(v2_temporal_effective(), [{"E": "F", "RL": "W", "RC": "UR"}])
    one_e = _pick(v2_env_effective(), [{"CDP": "LM", "TD": "M", "CR": "H", "IR": "L", "AR": "M"}])
    return [
        Block("v2.temporal_spellings", "2", b27, v2_temporal_spellings(), ABSENT + one_e),
        Block("v2.env_spellings", "2", b27, ABSENT + one_t, v2_env_spellings()),
    ]
