"""Client of vf/jsonval_server.py + the factorisation of schema validity (see DESIGN C10)."""

import json
import os
import re
import subprocess

from . import core

TOOL_PY = os.environ.get("VERIF_TOOL_PY", "/opt/veriftools/pyvenv/bin/python")
SCHEMA_FILE = {"2.0": "cvss-v2.0.json", "3.0": "cvss-v3.0.json", "3.1": "cvss-v3.1.json",
               "4.0": "cvss-v4.0.json"}
ANNOTATIONS = set(["license", "$schema", "title", "id", "$id", "description"])
ABSENT = "<absent>"


class Validator(object):
    def __init__(self):
        self.p = subprocess.Popen([TOOL_PY, os.path.join(core.VERIF, "vf", "jsonval_server.py")],
                                  stdin=subprocess.PIPE, stdout=subprocess.PIPE, text=True, bufsize=1,
                                  env={"PATH": "/usr/bin:/bin", "PYTHONDONTWRITEBYTECODE": "1"})
        hello = self.p.stdout.readline()
        if "ready" not in hello:
            raise core.HarnessError("JSON schema validator did not start: %r" % hello)
        self.n = 0

    def errors(self, schema, text):
        self.n += 1
        self.p.stdin.write(json.dumps({"schema": schema, "text": text}) + "\n")
        self.p.stdin.flush()
        line = self.p.stdout.readline()
        if not line:
            raise core.HarnessError("JSON schema validator died")
        return json.loads(line)["errors"]

    def close(self):
        try:
            self.p.stdin.close()
            self.p.wait(5)
        except Exception:  # noqa
            self.p.kill()


class Schema(object):
    """Structure of one pinned schema, with the keyword whitelist that makes validity factorise."""

    def __init__(self, version):
        self.version = version
        with open(os.path.join(core.VERIF, "data", "schemas", SCHEMA_FILE[version])) as f:
            self.raw = json.load(f)
        extra = set(self.raw) - ANNOTATIONS - set(["type", "properties", "required", "definitions", "allOf"])
        if extra or self.raw.get("type") != "object":
            raise core.HarnessError("schema %s has top-level keywords the factorisation does not "
                                    "cover: %s" % (version, sorted(extra)))
        self.props = set(self.raw["properties"])
        self.required = list(self.raw["required"])
        self.pattern = re.compile(self.raw["properties"]["vectorString"]["pattern"])
        self.couples = []
        for item in self.raw.get("allOf", []):
            if set(item) != set(["anyOf"]):
                raise core.HarnessError("schema %s: allOf item is not a bare anyOf" % version)
            keys = None
            for alt in item["anyOf"]:
                if set(alt) != set(["properties"]):
                    raise core.HarnessError("schema %s: anyOf alternative is not bare properties" % version)
                k = tuple(sorted(alt["properties"]))
                if keys is None:
                    keys = k
                elif keys != k:
                    raise core.HarnessError("schema %s: anyOf alternatives constrain different keys" % version)
            self.couples.append(keys)
        self.coupled = set(k for c in self.couples for k in c)

    def factors(self, d):
        """The factors of instance d: list of (factor name, JSON text of the value(s))."""
        out = []
        for k, v in d.items():
            if k in self.props and k != "vectorString":
                out.append((k, json.dumps(v)))
        for c in self.couples:
            out.append(("+".join(c), json.dumps([d.get(k, ABSENT) for k in c])))
        return out


# hand-made valid baseline instances, one per schema
BASELINE = {
    "2.0": {"version": "2.0", "vectorString": "AV:N/AC:L/Au:N/C:P/I:P/A:P", "baseScore": 7.5},
    "3.0": {"version": "3.0", "vectorString": "CVSS:3.0/AV:N/AC:L/PR:N/UI:N/S:U/C:H/I:H/A:H",
            "baseScore": 9.8, "baseSeverity": "CRITICAL"},
    "3.1": {"version": "3.1", "vectorString": "CVSS:3.1/AV:N/AC:L/PR:N/UI:N/S:U/C:H/I:H/A:H",
            "baseScore": 9.8, "baseSeverity": "CRITICAL"},
    "4.0": {"version": "4.0",
            "vectorString": "CVSS:4.0/AV:N/AC:L/AT:N/PR:N/UI:N/VC:H/VI:H/VA:H/SC:N/SI:N/SA:N",
            "baseScore": 9.3, "baseSeverity": "CRITICAL"},
}


def factor_instance(schema, name, text):
    """Baseline instance with the factor's key(s) replaced by the factor's value(s)."""
    inst = dict(BASELINE[schema.version])
    val = json.loads(text)
    if "+" in name:
        for k, v in zip(name.split("+"), val):
            if v == ABSENT:
                inst.pop(k, None)
            else:
                inst[k] = v
    else:
        inst[name] = val
    return inst
