"""
Harness and reference model for the interactive builder (cvss.interactive.ask_interactively).

Harness: the real function runs in process through the real input() path; sys.stdout is a StringIO
and sys.stdin a small *reactive* file object whose readline() looks at what was printed since the
last answer, attributes the pending question to a metric (keywords of the specification's metric
names - the statement does not fix prompt wording or question order) and returns the next scripted
answer *for that metric*. Scripts are keyed by metric, not by position.

Model: which metrics must be asked, how many answers each question consumes, the resulting vector.
"""

import io
import re
import sys

from .ref import tables as T

VERSION_ARG = {"2": 2, "3.0": 3.0, "3.1": 3.1, "4.0": 4.0}

_KW_COMMON = {
    "C": ("confidentiality",), "I": ("integrity",), "A": ("availability",),
    "CR": ("confidentiality", "req"), "IR": ("integrity", "req"), "AR": ("availability", "req"),
    "RL": ("remediation",), "RC": ("report", "confidence"),
}
KEYWORDS = {
    "2": dict(_KW_COMMON, AV=("access", "vector"), AC=("access", "complexity"),
              Au=("authentication",), E=("exploitability",), CDP=("collateral",), TD=("target", "distribution")),
    "3": dict(_KW_COMMON, AV=("attack", "vector"), AC=("attack", "complexity"),
              PR=("privileges",), UI=("user", "interaction"), S=("scope",), E=("exploit",),
              MAV=("modified", "attack", "vector"), MAC=("modified", "attack", "complexity"),
              MPR=("modified", "privileges"), MUI=("modified", "user", "interaction"), MS=("modified", "scope"),
              MC=("modified", "confidentiality"), MI=("modified", "integrity"),
              MA=("modified", "availability")),
    "4": {
        "AV": ("attack", "vector"), "AC": ("attack", "complexity"), "AT": ("attack", "req"),
        "PR": ("privileges",), "UI": ("user", "interaction"),
        "VC": ("vulnerable", "confidentiality"), "VI": ("vulnerable", "integrity"),
        "VA": ("vulnerable", "availability"),
        "SC": ("subsequent", "confidentiality"), "SI": ("subsequent", "integrity"),
        "SA": ("subsequent", "availability"),
        "E": ("exploit",),
        "CR": ("confidentiality", "req"), "IR": ("integrity", "req"), "AR": ("availability", "req"),
        "MAV": ("modified", "attack", "vector"), "MAC": ("modified", "attack", "complexity"),
        "MAT": ("modified", "attack", "req"), "MPR": ("modified", "privileges"),
        "MUI": ("modified", "user", "interaction"),
        "MVC": ("modified", "vulnerable", "confidentiality"),
        "MVI": ("modified", "vulnerable", "integrity"),
        "MVA": ("modified", "vulnerable", "availability"),
        "MSC": ("modified", "subsequent", "confidentiality"),
        "MSI": ("modified", "subsequent", "integrity"),
        "MSA": ("modified", "subsequent", "availability"),
        "S": ("safety",), "AU": ("automatable",), "R": ("recovery",), "V": ("value", "density"),
        "RE": ("response", "effort"), "U": ("urgency",),
    },
}


_ABBREV_AT_START = re.compile(r"\s*([A-Za-z]{1,3})\s*(?:[:\[(=?]|$)")


def attribute(fam, name):
    """Metric a prompt name refers to, or None. Longest fully-contained keyword tuple wins."""
    low = name.lower()
    best, best_n, tie = None, 0, False
    for m, kws in KEYWORDS[fam[0]].items():
        if all(k in low for k in kws):
            if len(kws) > best_n:
                best, best_n, tie = m, len(kws), False
            elif len(kws) == best_n:
                tie = True
    if best is not None:
        return None if tie else best
    # no metric name in the text: a question may name the metric by its abbreviation alone
    # ("MAV [X/N/A/L/P]: "). Only an abbreviation that opens the line and is followed by
    # punctuation counts - "A valid value is required" does not ask about Availability.
    mt = _ABBREV_AT_START.match(name)
    if mt and mt.group(1) in KEYWORDS[fam[0]]:
        return mt.group(1)
    return None


class EndOfScript(Exception):
    pass


class ReactiveStdin(object):
    def __init__(self, fam, out, script, default=None):
        self.fam, self.out, self.script = fam, out, dict((k, list(v)) for k, v in script.items())
        self.default = default
        self.mark = 0
        self.pending = ""     # rest of an answer line that was read with a size limit
        self.asked = []       # metric per question, in order (None = unattributable)
        self.prompts = []
        self.answers = []

    def readline(self, size=-1):
        """Like a real text stream: at most `size` characters of the current line; what is left of
        the line is what the next call returns (a reader that limits the size sees one answer
        line as several)."""
        line = self._next_line() if not self.pending else self._rest()
        if size is not None and 0 <= size < len(line):
            self.pending, line = line[size:], line[:size]
        return line

    def _pending_question(self):
        """(metric, prompt text) of the question that is waiting for an answer. The statement fixes
        neither the wording nor the layout of a question: the last line printed since the previous
        answer that names a metric decides (the prompt may be followed by a line of its own such as
        "> "); if nothing printed since the previous answer names a metric at all, the question is
        taken to be the previous one asked again ("Invalid value, try again:")."""
        text = self.out.getvalue()
        new = text[self.mark:]
        self.mark = len(text)
        lines = new.split("\n")
        for line in reversed(lines):
            name = line.rsplit(":", 1)[0] if ":" in line else line
            m = attribute(self.fam, name)
            if m is None and name != line:
                m = attribute(self.fam, line)
            if m is not None:
                return m, line
        last = lines[-1]
        if self.asked and self.asked[-1] is not None:
            return self.asked[-1], last
        return None, last

    def _rest(self):
        m, last = self._pending_question()
        self.asked.append(m)
        self.prompts.append(last)
        self.answers.append("<rest of the previous answer line>")
        line, self.pending = self.pending, ""
        return line

    def _next_line(self):
        m, last = self._pending_question()
        self.asked.append(m)
        self.prompts.append(last)
        q = self.script.get(m)
        if q is None and self.default is not None and m is not None:
            q = self.script[m] = list(self.default(m))
        if not q:
            self.answers.append(None)
            return ""           # end of input -> input() raises EOFError
        a = q.pop(0)
        self.answers.append(a)
        return a + "\n"

    def read(self, *a):
        return ""

    def isatty(self):
        return False

    def fileno(self):
        raise io.UnsupportedOperation("fileno")

    encoding = "utf-8"
    errors = "strict"


def run_builder(fam, all_metrics, no_colors, script, default=None, max_questions=4000, version_arg=None):
    """Runs the real ask_interactively. Returns dict(result|eof|exc, asked, prompts, answers, out)."""
    import cvss.interactive as I

    out = io.StringIO()
    stdin = ReactiveStdin(fam, out, script, default)
    real_readline = stdin.readline

    def guarded(*a):
        if len(stdin.asked) >= max_questions:
            raise EndOfScript("more than %d questions" % max_questions)
        return real_readline(*a)

    stdin.readline = guarded
    old = sys.stdin, sys.stdout
    sys.stdin, sys.stdout = stdin, out
    res = {}
    try:
        try:
            res["result"] = I.ask_interactively(VERSION_ARG[fam] if version_arg is None else version_arg,
                                                all_metrics, no_colors)
        except EOFError:
            res["eof"] = True
        except EndOfScript as e:
            res["exc"] = "asks forever: %s" % e
        except BaseException as e:  # noqa
            res["exc"] = "%s: %s" % (type(e).__name__, e)
    finally:
        sys.stdin, sys.stdout = old
    res.update(asked=stdin.asked, prompts=stdin.prompts, answers=stdin.answers, out=out.getvalue())
    return res


# ------------------------------------------------------------------ model

def expected_metrics(fam, all_metrics):
    return list(T.METRICS[fam]) if all_metrics else list(T.MANDATORY[fam])


def match_answer(fam, metric, ans):
    """Set of admitted resolutions of one answer: each is a canonical value or None (= re-ask)."""
    legal = T.METRICS[fam][metric]
    nd = T.ND[fam]
    stripped = ans.strip()

    def exact(a):
        if a == "":
            return nd if nd in legal else None
        for v in legal:
            if v.lower() == a.lower():
                return v
        return None

    def loose(a):
        """Characters that are not ASCII letters but whose Unicode upper-case or case-fold is one
        (long s, dotless i, Kelvin sign ...): "case-insensitively" can be read either way."""
        for v in legal:
            if v.lower() != a.lower() and (v.upper() == a.upper() or v.casefold() == a.casefold()):
                return v
        return None

    if stripped == ans:
        if exact(ans) is None and ans and loose(ans) is not None:
            return set([loose(ans), None])
        return set([exact(ans)])
    # blank-padded or blank-only answers: accepting the stripped text and re-asking are both admitted
    return set([exact(stripped), None])


def model_run(fam, all_metrics, script, asked_order, default=None):
    """Given the order in which metrics were (first) asked, predict per-metric consumption and the
    admitted results. Returns (consumed {metric: n}, set of admitted outcomes) where an outcome is
    ("result", vector) or ("eof",). Nondeterminism (padded answers) is resolved breadth-first."""
    states = [([], {})]  # (fields, consumed)
    outcomes = set()
    for m in asked_order:
        answers = script.get(m)
        if answers is None:
            answers = list(default(m)) if default else []
        nxt = []
        for fields, consumed in states:
            # frontier over answer positions
            front = [0]
            done = set()
            while front:
                pos = front.pop()
                if pos >= len(answers):
                    outcomes.add(("eof", m, pos))
                    continue
                for r in match_answer(fam, m, answers[pos]):
                    if r is None:
                        if pos + 1 not in done:
                            done.add(pos + 1)
                            front.append(pos + 1)
                    else:
                        c = dict(consumed)
                        c[m] = pos + 1
                        nxt.append((fields + ["%s:%s" % (m, r)], c))
        states = nxt
        if not states:
            break
    results = set()
    for fields, consumed in states:
        results.add(("result", T.PREFIX[fam] + "/".join(fields), tuple(sorted(consumed.items()))))
    return results, outcomes


def judge_run(fam, all_metrics, script, run, default=None):
    """Compare one harness run with the model. Returns why-or-None."""
    if "exc" in run:
        return "builder raised %s" % run["exc"]
    want = expected_metrics(fam, all_metrics)
    asked = run["asked"]
    if None in asked:
        i = asked.index(None)
        return "question %d (%r) is not about a metric of CVSS %s" % (i + 1, run["prompts"][i], fam)
    # blocks of consecutive identical metrics
    order, counts = [], {}
    for m in asked:
        if order and order[-1] == m:
            counts[m] += 1
        elif m in counts:
            return "metric %s is asked again after other questions" % m
        else:
            order.append(m)
            counts[m] = 1
    for m in order:
        if m not in want:
            return "metric %s is asked but is not %s of CVSS %s" % (
                m, "a metric" if all_metrics else "a mandatory metric", fam)
    results, eofs = model_run(fam, all_metrics, script, order, default)
    if "eof" in run:
        # must be an admitted EOF point: at metric order[-1] after consuming counts-1 answers
        m = order[-1] if order else None
        ok = any(e[1] == m and e[2] == counts[m] - 1 for e in eofs)
        if not ok:
            return "input ended (EOFError) at question %s after %d answers; the answers given admit %s" % (
                m, counts.get(m, 0) - 1, sorted(results)[:2] or sorted(eofs)[:2])
        return None
    got = run["result"]
    missing = [m for m in want if m not in order]
    if missing:
        return "returned %r without asking %s" % (got, ", ".join(missing))
    for r in results:
        if r[1] == got and dict(r[2]) == counts:
            return None
    for r in results:
        if r[1] == got:
            return "returned the right vector but consumed answers %r, expected %r" % (counts, dict(r[2]))
    return "returned %r; the accepted answers make %s" % (
        got, sorted(r[1] for r in results)[:2] or "no vector (input ends first)")
