"""Observation helpers on real objects (the library is imported lazily from the tree under test)."""

import zlib

from .ref import tables as T


def cls_of(fam):
    import cvss

    return getattr(cvss, T.CLASSNAME[fam])


# How the object under judgement is obtained. The sweeps judge most points on an object built by
# the class constructor and, at a fixed stride (and again at the end of every task), on an object
# obtained through the library's other entry points: the constructor for Red Hat notation, the
# text scanner, and a constructor call followed by hashing and comparing (what any consumer that
# de-duplicates does before it reads an object).
ENTRY = "direct"
ENTRIES = ("rh", "text", "hashed", "strsub", "copied", "pickled")


class Text(str):
    """A str subclass (what an ORM column, a lazy translation, a markup-safe string or a member of
    a `class Known(str, Enum)` hands over): every str is a legal argument, and a subclass instance
    is a str - its characters are the vector, whatever str() or repr() of it print."""
    __slots__ = ("origin",)

    def __str__(self):
        return "Text.%s" % getattr(self, "origin", "?")

    def __repr__(self):
        return "<Text from %s>" % getattr(self, "origin", "?")

    def __format__(self, spec):
        return format(str(self), spec)



class EntryError(Exception):
    pass


def construct(fam, vec):
    cls = cls_of(fam)
    e = ENTRY
    if e == "text" and fam == "4.0":
        e = "hashed"            # the scanner is specified for v2 and v3 only
    if e == "direct":
        return cls(vec)
    if e == "rh":
        score = cls(vec).rh_vector().split("/")[0]
        if zlib.crc32(vec.encode("utf-8")) & 2:
            t = Text(score + "/" + vec)          # Red Hat notation handed over as a str subclass
            t.origin = "somewhere"
            return cls.from_rh_vector(t)
        if zlib.crc32(vec.encode("utf-8")) & 1:
            # the same number written with more digits than a float holds; a reading that refuses
            # such a text is admitted (C12), then the plain text is used
            try:
                return cls.from_rh_vector(score + "0" * 20 + "1/" + vec)
            except Exception:  # noqa
                pass
        return cls.from_rh_vector(score + "/" + vec)
    if e == "text":
        from cvss.parser import parse_cvss_from_text
        if zlib.crc32(vec.encode("utf-8")) & 2:
            t = Text(vec)
            t.origin = "somewhere"
            got = parse_cvss_from_text(t)
        else:
            got = parse_cvss_from_text(vec)
        if len(got) != 1 or type(got[0]) is not cls:
            raise EntryError("parse_cvss_from_text(%r) returns %r instead of the one %s object" % (
                vec, got, cls.__name__))
        return got[0]
    if e == "strsub":
        t = Text(vec)
        t.origin = "somewhere"
        return cls(t)
    if e == "copied":
        import copy
        return copy.deepcopy(copy.copy(cls(vec)))
    if e == "pickled":
        import pickle
        return pickle.loads(pickle.dumps(cls(vec), 2))
    if e == "hashed":
        o = cls(vec)
        seen = set([o])
        if not (o == cls(vec)) or cls(vec) not in seen:
            raise EntryError("the object does not equal / hash like a second object built from %r" % vec)
        return o
    raise ValueError(e)


def via():
    return "" if ENTRY == "direct" else "  [object obtained through %s]" % {
        "rh": "from_rh_vector(<its score>/<vector>)", "text": "parse_cvss_from_text(<vector>)",
        "hashed": "the constructor, then hashed and compared",
        "strsub": "the constructor called with an instance of a str subclass (whose str() is not its text)",
        "copied": "the constructor, then copy.copy and copy.deepcopy",
        "pickled": "the constructor, then a pickle round trip"}[ENTRY]


def observation(fam, obj):
    """Everything C05 calls 'outputs', except equality/hash (handled by the caller)."""
    out = {
        "scores": obj.scores(),
        "severities": obj.severities(),
        "clean": obj.clean_vector(),
        "rh": obj.rh_vector(),
    }
    if fam == "2":
        out["temporal_vector"] = obj.temporal_vector()
        out["environmental_vector"] = obj.environmental_vector()
    elif fam in ("3.0", "3.1"):
        out["clean_noprefix"] = obj.clean_vector(output_prefix=False)
        out["temporal_vector"] = obj.temporal_vector()
        out["environmental_vector"] = obj.environmental_vector()
    else:
        out["clean_noprefix"] = obj.clean_vector(output_prefix=False)
        out["severity"] = obj.severity
        out["base_score"] = obj.base_score
    return out


def count_seeds(fam):
    """For every possible number of fields (mandatory only ... all metrics) two accepted vectors
    with exactly that many fields: the first k optional metrics at their last value, and the last
    k optional metrics alternating between Not Defined and their second value."""
    tab = T.METRICS[fam]
    mand = T.MANDATORY[fam]
    opt = T.OPTIONAL[fam]
    nd = T.ND[fam]
    out = []
    for k in range(len(opt) + 1):
        a = dict((m, tab[m][k % len(tab[m])]) for m in mand)
        a.update(dict((m, tab[m][-1]) for m in opt[:k]))
        b = dict((m, tab[m][(k + 1) % len(tab[m])]) for m in mand)
        b.update(dict((m, nd if i % 2 else [v for v in tab[m] if v != nd][1 % len([v for v in tab[m] if v != nd])])
                      for i, m in enumerate(opt[len(opt) - k:])))
        for asg in (a, b):
            out.append((T.spell(fam, asg, [m for m in tab if m in asg]), asg))
    return out


def covering_seeds(fam, n, with_optional=True):
    """n accepted vectors forming a value-covering array: seed k gives metric i the value number
    (k + i) mod |domain|; which optional metrics are present, and the field order, vary with k.
    Returns [(vector string, assignment dict)]."""
    tab = T.METRICS[fam]
    names = list(tab)
    mand = T.MANDATORY[fam]
    out = []
    for k in range(n):
        asg = {}
        for i, m in enumerate(names):
            dom = tab[m]
            v = dom[(k + i) % len(dom)]
            if m in mand:
                asg[m] = v
            elif with_optional:
                mode = (k + 2 * i) % 5  # 0,1: absent; 2,3,4: present (value may be ND/X)
                if k % 7 == 3:
                    mode = 2           # every 7th seed: all optional metrics present
                if k % 7 == 5:
                    mode = 0           # every 7th seed: none
                if mode >= 2:
                    asg[m] = v
        order = [m for m in names if m in asg]
        r = k % 4
        if r == 1:
            order = order[::-1]
        elif r == 2:
            order = order[len(order) // 2:] + order[:len(order) // 2]
        elif r == 3:
            order = order[1::2] + order[0::2]   # e.g. MAC before AC, MSI before SI
        out.append((T.spell(fam, asg, order), asg))
    return out
