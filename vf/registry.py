"""Per-check metadata from which tools/gen_manifest.py writes MANIFEST.json."""

CHECKS = {}


def reg(pid, engine, technique, text, note, design_ref):
    CHECKS[pid] = dict(engine=engine, technique=technique, text=text, note=note,
                       design_ref=design_ref)


TRUST = ("Trusted: the reference model's constants typed in from the specification (validated on "
         "every run against the pinned official-calculator vectors), CPython, and that the tree "
         "under test is what `import cvss` loads from $VERIF_REPO. Every task runs in a fresh fork of "
         "a parent that never executed library code; a case that does not reproduce from its input "
         "alone is replayed as its task prefix (history-dependent defects). Half of the tasks first run a "
         "fixed history of valid use of every other entry point (vf/prior.py); E1 sweeps end every task "
         "with revisits, 2,100 repetitions, the other entry points (Red Hat notation, text scanner, str "
         "subclass, copy, pickle, hashed) and a second thread, run all call histories of length 5-6 over "
         "four points from fresh processes, and add rows that vary all metric groups at once with "
         "measured 3-/4-way value coverage (DESIGN 10.2c/10.2d).")

reg("C03", "E1 product sweep",
    "explicit-state enumeration of the complete v2 effective-assignment product on the real "
    "CVSS2 class, compared point by point with an exact-rational reference model",
    "Every point of the stated finite quotient (thorough: all 729 x 49 x 541 = 19.3M effective "
    "assignments incl. the defined/undefined group distinction, plus all 180 temporal and 5,250 "
    "environmental spellings; quick: <=1 free metric group around a skeleton, base x temporal, "
    "base x environmental) is constructed and its three scores compared with the guide's "
    "equations evaluated in exact rationals. Exhaustive over the property's own quotient, which is "
    "the right level for a pure function over a finite domain.",
    TRUST, "DESIGN.md section 3, C03")

reg("C01", "E1 product sweep",
    "explicit-state enumeration of the v3.0/v3.1 effective-assignment quotient on the real CVSS3 "
    "class, compared point by point with an exact-rational reference model",
    "Every point of the property's finite quotient (thorough: 2 x 2,592 x 100 temporal spellings, "
    "2 x 2,592 x 48 x 27 environmental cases with inherited base values and the same 6.7M cases "
    "with all eight Modified metrics overriding a differing base vector; quick: the complete inherited "
    "quotient as well, the override block with a 4-point temporal skeleton; both: 903 field layouts) is constructed and all three scores compared with the "
    "specification's equations in exact rationals (Roundup = ceiling to one decimal).",
    TRUST, "DESIGN.md section 3, C01")

reg("C02", "E1 product sweep",
    "explicit-state enumeration of all 15,116,544 effective v4.0 assignments on the real CVSS4 "
    "class, compared point by point with an exact reference implementation of spec section 8.2",
    "Thorough: every effective assignment of the 15 scoring metrics (the property's whole "
    "quotient) in the short spelling plus ~1M points delivered through Modified metrics/explicit X. "
    "Quick: a skeleton containing all 270 macrovectors with each metric group freed in turn "
    "(0.55M points, both spellings). The model derives the highest-severity vectors and depths "
    "from the EQ definitions itself and carries its own lookup table.",
    TRUST + " The pinned 270-row lookup table is assumed to be FIRST's.", "DESIGN.md section 3, C02")

reg("C09", "E1 product sweep",
    "explicit-state enumeration of the C01-C03 product spaces on the real classes; every reported "
    "score/rating checked against format predicates and an independent severity scale",
    "Every object of the enumerated spaces has each score slot checked for type float, range, "
    "one-decimal repr, no negative zero, None only for undefined v2 groups; each rating against "
    "the official scale; severities(), CVSS4.severity, JSON severities and the RH score text for "
    "mutual agreement. Evidence lists which band edges were reached per slot.",
    TRUST, "DESIGN.md section 3, C09")

reg("C14", "E1 product sweep + edge relation",
    "explicit-state exploration of the score tables as graphs: nodes scored by the real classes, "
    "every single-step severity edge between visited nodes checked for monotonicity",
    "Thorough: all 15.1M v4 nodes / ~150M edges, the complete v3.0 and v3.1 inherit tables "
    "(6.7M nodes each) plus override tables on two fixed base vectors, the complete v2 "
    "base x temporal table. Quick: the <=1-free-group node sets and all edges among them. The "
    "oracle is relational (no expected values), with exactly the statement's exemptions.",
    "Trusted: the severity orders typed in from the specifications; CPython.",
    "DESIGN.md section 3, C14")

reg("C06", "E1 relation sweep",
    "explicit-state enumeration of the five substitution relations (edges baseline->variant) on "
    "the real classes; differential oracle: the stated score slots are equal across every edge",
    "For v2/v3 every base vector x every subset of the eligible metrics is enumerated for (a) and "
    "(b); (d) full override x Hamming-1 (quick) / all 2,592 (thorough) base vectors; v4 relations "
    "run on a base skeleton (quick) or all 104,976 base vectors (thorough), all 9,600 supplemental "
    "spellings on a macrovector-covering set, all 2,048 Modified subsets on a small set. Relation "
    "(d) writes every second group of vectors with the Modified metrics in front of the base metrics.",
    "Trusted: the tables of eligible metrics / equivalent values typed in from the specification; "
    "CPython. v4 products larger than the stated sets are bounded (stated in evidence).",
    "DESIGN.md section 3, C06")

reg("C12", "E1 product sweep + token x vector product",
    "explicit-state enumeration: round trip on product spaces; every (score token, vector part) "
    "pair of a finite alphabet through from_rh_vector() against a nondeterministic RH model "
    "(trace inclusion)",
    "All v2 and v3 base vectors x all 101 representable scores, a v4 set covering every reachable "
    "score x 101, plus 45 odd / padded / non-numeric / fuzzy tokens x score-covering and invalid "
    "vector parts, and strings without '/'. Bounded by the token alphabet and vector sets (the "
    "property quantifies over all strings).",
    TRUST + " Where the statement does not fix the precedence of two applicable errors, or "
    "delegates numeric-ness to the number parser, the model admits every reading.",
    "DESIGN.md section 3, C12")

reg("C15", "E1 product sweep",
    "explicit-state enumeration of temporal x environmental spellings on the real CVSS2/CVSS3 "
    "classes; oracle = the model's own parse, plus re-assembly differential",
    "v2: all 180 x 5,250 spellings; v3: all 180 temporal spellings on every base vector, "
    "environmental spellings with <=2 (quick) / <=3 (thorough) departures from 'absent', and in the "
    "thorough tier the complete 30,000,000-point environmental spelling space on one base vector.",
    TRUST, "DESIGN.md section 3, C15")

reg("C04", "E2 rewrite BFS",
    "explicit-state BFS over the edit graph of strings around valid vectors (dedup on the string) "
    "plus all short strings; each string offered to all three real constructors and compared with "
    "an independent recogniser of the grammar and error taxonomy",
    "Character-level edit distance 1 over a 53-character alphabet and field-level distance 1 over "
    "a ~330-field universe around 24 seeds, field-level distance 2 around minimal seeds, all "
    "strings of length <=5 (quick) / <=6 (thorough) over a 10-character alphabet, and in the "
    "thorough tier character-level distance 2 around the minimal v2 vector (~7M strings). The "
    "quantifier is unbounded; the verdict is for the stated edit-distance bound.",
    "Trusted: the grammar tables typed in from the specifications (vf/ref/tables.py).",
    "DESIGN.md section 3, C04")

reg("C05", "E2 rewrite BFS",
    "explicit-state BFS over the re-spelling graph (field transpositions/moves, explicit ND/X "
    "insertions and deletions) around value-covering seeds + complete permutation groups and "
    "power sets; differential oracle against the seed's observation tuple",
    "Permutation distance 1 (quick) / 2 (thorough) from 160-190 seeds; all 720 orders of the v2 "
    "base fields, all 40,320 orders of the v3 base fields; all 2^k explicit-ND subsets for v2/v3, "
    "v4 all 2^k in the thorough tier. No expected values: every node must reproduce its seed's "
    "scores, ratings, cleaned vector, RH vector, sub-vectors, equality and hash. Every permutation "
    "of the version's metric blocks (24 / 120 orders, plain and block-reversed) of six all-metrics "
    "assignments per family in which Modified metrics differ from their base metrics.",
    "Trusted: the model's parse (to know which seed a node belongs to).",
    "DESIGN.md section 3, C05")

reg("C07", "E1 universe + all ordered pairs",
    "explicit enumeration of a universe of accepted vectors and of ALL ordered pairs of it on the "
    "real objects; oracle = the model's defined-metric map (model key)",
    "~2,300 (quick) / ~6,000 (thorough) vectors over all four families: unary canonical-form "
    "checks on each, == / != / hash / scores consistency on every ordered pair (5M-36M pairs, "
    "cross-version pairs included), transitivity on all triples of a 60-element sub-universe. The "
    "fixed metric order is checked as a consistent precedence relation over all outputs without "
    "presupposing which order. The universe contains an all-metrics vector in every permutation of "
    "the metric blocks (every third for v4).",
    "Trusted: the model's parse. Bounded by the universe.", "DESIGN.md section 3, C07")

reg("C08", "E1 subset sweep + builder runs",
    "explicit enumeration of every subset of optional metrics defined (and interactive-builder "
    "runs) on the real code; oracle = the library's own parser + the vectorString regex of the "
    "pinned FIRST schema",
    "v2: all 2^8 subsets x 3 value rotations x 3 input orders; v3: all 2^14 x 2 minors; v4: all "
    "2^21 subsets (thorough) / all subsets of size <=3 and their complements (quick); plus 64 "
    "builder runs; all-metrics inputs in every permutation of the metric blocks. Every emitted "
    "string is re-parsed and regex-matched.",
    "Trusted: the pinned copies of FIRST's JSON schemas (data/schemas), Python's re.",
    "DESIGN.md section 3, C08")

reg("C10", "E1 product sweep + real validator",
    "explicit-state enumeration of accepted vectors x {sort} x {minimal}; every distinct JSON "
    "factor validated by the real jsonschema validator against the pinned FIRST schemas "
    "(factorised validity, cross-checked on complete instances)",
    "0.9M (quick) / ~25M (thorough) vectors of all versions plus re-spelled inputs, four option "
    "pairs each, JSON round trip; validity factorises over top-level properties (+ the three "
    "coupled score/severity pairs of the v4.0 schema) - the keyword whitelist is asserted on the "
    "pinned schemas at start-up and the factorised verdict is compared with the real validator's on "
    "complete instances of every distinct key set. Two recorded findings (F2d, F2e) are matched by "
    "factor-level signatures; any other failing factor is a violation.",
    "Trusted: pinned copies of FIRST's schemas, jsonschema 4.26 (tooling interpreter), Decimal "
    "parsing of instance and schema.", "DESIGN.md section 3, C10")

reg("C11", "E1 product sweep",
    "explicit-state enumeration of accepted vectors x {sort} x {minimal}; oracle = the model's own "
    "parse + JSON names tables + the object's own accessors",
    "Same spaces as C10. Per instance: version, vectorString == input, score/severity fields, "
    "every metric field against the effective value (stated / inherited base value / NOT_DEFINED); "
    "sort=True equals sort=False with ascending keys; minimal=True is a sub-mapping lacking only "
    "whole undefined temporal/environmental groups. Where library and FIRST v4.0 schema spell a "
    "key or value differently both are admitted (disjoint per value).",
    "Trusted: names tables typed in from FIRST's schemas (vf/ref/names.py), the model's parse.",
    "DESIGN.md section 3, C11")

reg("C13", "E3 token-sequence enumeration",
    "explicit enumeration of all texts that are concatenations of <=3 (quick) / <=4 (thorough) "
    "tokens of a 34-token alphabet, plus all single-character edits of ten texts, through the real "
    "parse_cvss_from_text; oracle = brute-force scan of all delimited substrings with the "
    "independent recogniser",
    "40k (quick) / 1.4M (thorough) token texts + ~40k edited texts: totality, soundness (every "
    "returned object's vector is a substring accepted by the model for the object's class), "
    "completeness for delimited v2/v3 vectors, duplicate-freedom, repeatability. Bounded by token "
    "alphabet and sequence length (the property quantifies over all texts).",
    "Trusted: the grammar tables; the token alphabet as a representative of 'arbitrary text'.",
    "DESIGN.md section 3, C13")

reg("C16", "E3 answer-script exploration (deviation-bounded)",
    "exhaustive enumeration of all answer scripts with <=d deviations from the default script, run "
    "through the real ask_interactively via the real input() path; oracle = dialogue model (trace "
    "inclusion)",
    "All versions x {mandatory, all} x {colours}: every legal value of every metric in four letter "
    "cases, empty / invalid-then-valid / blank-padded answers and end of input at every question; "
    "d=1 for all-metrics and d=2 for mandatory-only (quick, 104k dialogues), d=2 everywhere and d=3 "
    "for v2 mandatory (thorough). Question order is not presupposed (reactive stdin keyed by "
    "metric).",
    "Trusted: a question names its metric by the distinctive words of the specification's metric "
    "name or by its abbreviation, somewhere in what is printed since the previous answer (wording, "
    "layout and the text of a repeated question are free).",
    "DESIGN.md section 3, C16")

reg("C17", "E3 command-line enumeration",
    "exhaustive enumeration of flag sets x vector alphabet x option forms and of interactive "
    "sessions (every EOF point) through the real main(), in process and as real subprocesses; "
    "oracle = CLI model over the library's own API view",
    "64 flag sets x 47 vectors (valid and invalid for each version) x {-v V, --vector=V}; "
    "interactive: complete script, end of input after every prefix, invalid and lower-case answer "
    "at each question for every single-version flag set; 136-450 real subprocess runs for exit "
    "status and stderr.",
    "Trusted: 'exactly as the library API reports them' is checked against the same tree's API "
    "(C01-C12 decide the API itself). Several version flags: any one is admitted. The report is "
    "judged by content (score lines by the words base/temporal/environmental in their label, the "
    "two vectors ending a line, the JSON document from the first line opening with '{'), not by "
    "the wording of labels; the error message may be on either stream.",
    "DESIGN.md section 3, C17")

reg("C18", "E3 operation-sequence BFS",
    "explicit-state BFS over operation histories on real objects with canonical state snapshots "
    "(dedup by snapshot hash, to fixpoint) + exhaustive black-box enumeration of all accessor "
    "sequences up to depth 2-3; oracle = fresh-object differential",
    "15-16 operations per family (every accessor, as_json with all option pairs, as_json followed "
    "by vandalising the returned dict, ==, hash) on 92 (quick) / 172 (thorough) seeds: in every "
    "reached state every operation must return what it returns on a fresh object; all sequences of "
    "length <=2 on every seed and <=3 on a third (quick) / all (thorough).",
    "Trusted: the snapshot (vars(obj), all module-level data of the package, decimal context, "
    "sys.path, warnings filters) captures the state; the black-box pass covers the rest up to its "
    "depth.", "DESIGN.md section 3, C18")

reg("C20", "E5 configuration matrix",
    "exhaustive enumeration of (interpreter, input) pairs: one probe program (2/3 common subset) "
    "runs under all ten installed interpreters; chunk digests of canonical JSON result lines must "
    "equal the reference interpreter's",
    "CPython 2.7.18, 3.6.15 ... 3.13.0 and /venv's 3.12 x ~17k (quick) / ~45k (thorough) cases: "
    "vectors of every version, invalid strings, RH notation, texts (result lists compared as "
    "lists), interactive scripts with transcripts, command lines with stdout/status. The list of "
    "things deliberately not compared is in the evidence (not_compared).",
    "Trusted: the reference interpreter's results are decided by C01-C19; sha256.",
    "DESIGN.md section 3, C20")

reg("C19", "E3 histories + E4 thread schedules (warm, cold, shared-object) + E5 configuration matrix",
    "four exhaustive bounded explorations on the real code: all API-call histories up to depth k "
    "followed by a probe (fresh-process differential + constant-table/ambient snapshots); all "
    "interleavings of real threads with <=2 preemptions under a settrace baton scheduler; the probe "
    "program under a list of hash seeds; the score spaces under a matrix of ambient decimal contexts",
    "(1) 30 process-level operations (valid / malformed / mandatory-missing constructions of every "
    "version, same body under 3.0 and 3.1, band-edge vectors, RH parsing, text extraction, accessors "
    "on long-lived objects, interactive builder, main(), the probe itself): all 930 histories of "
    "length <=2 (quick) / 27,930 of length <=3 (thorough), each in its own fresh fork of a pristine "
    "parent under a non-default ambient decimal context, followed by a 340-case probe and "
    "constant-table / ambient snapshots. (2) ten warm thread groups: bound 0/1 at line granularity "
    "(every traced line of the package is a switch point), bound 2 at call granularity (quick) / "
    "line granularity for two v3 groups (thorough), opcode granularity at bound 1 (thorough). (2b) "
    "twelve groups whose every schedule runs in a fresh fork (cold lazily-built globals) incl. six "
    "where two threads use ONE fresh object (bound 1 and 2 at line granularity). 80k (quick) - 1.5M "
    "(thorough) complete schedules. (3) 8 hash seeds x ~17k cases, lists compared as lists. (4) 11 "
    "(quick) / 40 (thorough) decimal contexts x 165k vectors incl. the complete v3 impact space and "
    "every error path, plus 4 contexts set before import. (5) every non-CLI entry point over ~100k "
    "strings with stdout/stderr captured.",
    "Trusted: sys.settrace line events as scheduling points (no locks/atomics in the library, so "
    "there is no synchronisation-free blind spot at that granularity); the pinned list of constant "
    "tables; decimal signal flags are not counted as 'the decimal context'.",
    "DESIGN.md section 3, C19")
