"""Per-check metadata from which tools/gen_manifest.py writes MANIFEST.json."""

CHECKS = {}


def reg(pid, engine, technique, text, note, design_ref):
    CHECKS[pid] = dict(engine=engine, technique=technique, text=text, note=note,
                       design_ref=design_ref)


TRUST = ("Trusted: the reference model's constants typed in from the specification (validated on "
         "every run against the pinned official-calculator vectors), CPython, and that the tree "
         "under test is what `import cvss` loads from $VERIF_REPO.")

reg("C03", "E1 product sweep",
    "explicit-state enumeration of the complete v2 effective-assignment product on the real "
    "CVSS2 class, compared point by point with an exact-rational reference model",
    "Every point of the stated finite quotient (thorough: all 729 x 49 x 541 = 19.3M effective "
    "assignments incl. the defined/undefined group distinction, plus all 180 temporal and 5,250 "
    "environmental spellings; quick: <=1 free metric group around a skeleton, base x temporal, "
    "base x environmental) is constructed and its three scores compared with the guide's "
    "equations evaluated in exact rationals. Exhaustive over the property's own quotient, which is "
    "the right level for a pure function over a finite domain.",
    TRUST, "DESIGN.md section 3, C03")
