"""
Harness and reference model for the command-line calculator (cvss.cvss_calculator.main).

run_main(args, stdin_text | reactive) runs the real main() in process with sys.argv, sys.stdin,
sys.stdout, sys.stderr replaced. judge(...) compares the captured output with what the library
API reports for the selected version (structural comparison: labels and tokens, not padding).
"""

import io
import json
import re
import sys
from collections import OrderedDict

from . import dialogue
from .ref import tables as T

FLAG_MAJOR = {"-2": 2, "-3": 3, "-4": 4}
FLAG_FAMILY = {"-2": "2", "-3": "3.0", "-4": "4.0"}   # family asked interactively
LABELS = ["Base Score", "Temporal Score", "Environmental Score"]


def run_main(args, stdin):
    """stdin: a str (fed through StringIO) or a file-like object. Returns dict(out, err, status, exc)."""
    import cvss.cvss_calculator as C

    out, err = io.StringIO(), io.StringIO()
    if isinstance(stdin, str):
        stdin = io.StringIO(stdin)
    if hasattr(stdin, "out"):
        stdin.out = out
    old = sys.argv, sys.stdin, sys.stdout, sys.stderr
    sys.argv, sys.stdin, sys.stdout, sys.stderr = ["cvss_calculator"] + list(args), stdin, out, err
    res = {"status": 0, "exc": None}
    try:
        try:
            C.main()
        except SystemExit as e:
            res["status"] = e.code if e.code is not None else 0
        except BaseException as e:  # noqa
            res["exc"] = "%s: %s" % (type(e).__name__, e)
            res["status"] = 1
    finally:
        sys.argv, sys.stdin, sys.stdout, sys.stderr = old
    res["out"], res["err"] = out.getvalue(), err.getvalue()
    return res


def selected(args):
    """Admitted (major, interactive family) selections for a flag list."""
    fl = [a for a in args if a in FLAG_MAJOR]
    if not fl:
        return [(3, "3.1")]
    return [(FLAG_MAJOR[f], FLAG_FAMILY[f]) for f in fl]


def api_view(major, vector):
    """What the library API reports for `vector` under class `major`: ('error', message) or
    ('ok', dict)."""
    import cvss

    cls = {2: cvss.CVSS2, 3: cvss.CVSS3, 4: cvss.CVSS4}[major]
    try:
        o = cls(vector)
    except cvss.CVSSError as e:
        return "error", str(e)
    return "ok", {"scores": o.scores(), "severities": o.severities(), "clean": o.clean_vector(),
                  "rh": o.rh_vector(), "json": o.as_json(sort=True, minimal=True), "major": major}


SCORE_WORDS = ["base", "temporal", "environmental"]


def _shows(lines, value):
    """Is `value` printed as the last thing of some line, not as the tail of a longer token?
    ("Red Hat vector: 7.5/AV:N/..." does not show the cleaned vector "AV:N/...".)"""
    for ln in lines:
        ln = ln.rstrip()
        if ln.endswith(value):
            before = ln[:len(ln) - len(value)]
            if before == "" or before[-1].isspace() or before[-1] in ":=":
                return True
    return False


def check_report(text, view, want_json):
    """Does `text` (the part of stdout after any dialogue) report `view`? Returns why-or-None.
    The statement fixes what is reported, not the wording of labels: a score line is a line whose
    label (the text before its first colon) contains "base" / "temporal" / "environmental" in any
    letter case; the two vectors must end a line; the JSON document is what starts at the first
    line that opens with "{"."""
    lines = text.split("\n")
    jstart = None
    for k, ln in enumerate(lines):
        if ln.startswith("{"):
            jstart = k
            break
    body = lines if jstart is None else lines[:jstart]
    found = {}
    for ln in body:
        if ":" in ln:
            label, rest = ln.split(":", 1)
            low = label.lower()
            for w in SCORE_WORDS:
                if w in low and "vector" not in low:
                    found.setdefault(w, rest.strip())
    sc, sv = view["scores"], view["severities"]
    for i, s in enumerate(sc):
        label = LABELS[i]
        w = SCORE_WORDS[i]
        if s is None:
            if w in found and found[w].split()[:1] not in ([], ["None"]):
                return "%s line shows %r for an undefined score" % (label, found[w])
            continue
        if w not in found:
            return "no %r line" % label
        toks = found[w].split()
        if not toks or toks[0] != repr(s):
            return "%s line shows %r, the API reports %r" % (label, found[w], s)
        rating = "(%s)" % sv[i]
        if view["major"] >= 3:
            if rating not in toks[1:]:
                return "%s line %r lacks the rating %s" % (label, found[w], rating)
        elif len(toks) > 1 and toks[1] != rating:
            return "%s line shows rating %r, the API reports %s" % (label, toks[1], rating)
    for i in range(len(sc), 3):
        if SCORE_WORDS[i] in found:
            return "%s line printed although CVSS%d defines no such score" % (LABELS[i], view["major"])
    if not _shows(body, view["clean"]):
        return "no line shows the cleaned vector %r the API reports" % (view["clean"],)
    if not _shows(body, view["rh"]):
        return "no line shows the Red Hat vector %r the API reports" % (view["rh"],)
    if want_json:
        if jstart is None:
            return "no JSON document printed although -j was given"
        doc = "\n".join(lines[jstart:])
        try:
            got = json.loads(doc, object_pairs_hook=OrderedDict)
        except ValueError as e:
            return "text from the first line that opens with '{' is not a JSON document: %s" % (e,)
        want = json.loads(json.dumps(view["json"]))
        if dict(got) != want:
            return "JSON document differs from as_json(sort=True, minimal=True)"
        if list(got) != sorted(got):
            return "JSON document keys are not in ascending order"
        for k, v in got.items():
            if type(v) is not type(want[k]):
                return "JSON field %s has another type than in as_json()" % k
    elif jstart is not None:
        return "a JSON document is printed although -j was not given"
    return None


def judge_vector(args, vector, res, want_json):
    """A command line that passes VECTOR (non-empty)."""
    bad = basic(res)
    if bad:
        return bad
    whys = []
    for major, _ in selected(args):
        kind, view = api_view(major, vector)
        if kind == "error":
            # the message may itself contain newlines (the vector is echoed): compare as a block;
            # the statement says "prints", not on which stream
            for chan in (res["out"], res["err"]):
                if chan.rstrip("\n") == view.rstrip("\n") or view in chan.split("\n"):
                    return None
            whys.append("CVSS%d rejects the vector with %r but the output is %r" % (major, view, res["out"][:200]))
        else:
            why = check_report(res["out"], view, want_json)
            if why is None:
                return None
            whys.append("as CVSS%d: %s" % (major, why))
    return "; ".join(whys)


def basic(res):
    if res["exc"]:
        return "main() raised %s" % res["exc"]
    if res["status"] not in (0, None):
        return "exit status %r" % (res["status"],)
    if "Traceback" in res["out"] or "Traceback" in res["err"]:
        return "a traceback is printed"
    return None
