"""
Runs under the tooling interpreter (python3-vt: jsonschema 4.26). Line protocol on stdin/stdout:
  request  {"schema": "2.0"|"3.0"|"3.1"|"4.0", "text": "<JSON text of the instance>"}
  reply    {"errors": [[path, validator keyword, message], ...]}
Schema and instance are loaded with parse_float=Decimal so that multipleOf: 0.1 is decided exactly.
"""
import json
import os
import sys
from decimal import Decimal

import jsonschema

HERE = os.path.dirname(os.path.dirname(os.path.abspath(__file__)))
VALIDATORS = {}
for v in ("2.0", "3.0", "3.1", "4.0"):
    with open(os.path.join(HERE, "data", "schemas", "cvss-v%s.json" % v)) as f:
        schema = json.load(f, parse_float=Decimal)
    cls = jsonschema.validators.validator_for(schema)
    cls.check_schema(schema)
    VALIDATORS[v] = cls(schema)

import importlib.metadata as _md
print(json.dumps({"ready": sorted(VALIDATORS), "jsonschema": _md.version("jsonschema")}))
sys.stdout.flush()
for line in sys.stdin:
    line = line.strip()
    if not line:
        continue
    req = json.loads(line)
    inst = json.loads(req["text"], parse_float=Decimal)
    errs = []
    for e in VALIDATORS[req["schema"]].iter_errors(inst):
        errs.append(["/".join(str(p) for p in e.absolute_path), e.validator, e.message[:200]])
    print(json.dumps({"errors": sorted(errs)}))
    sys.stdout.flush()
