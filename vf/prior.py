"""
The *prior history*: a fixed run of ordinary, valid use of every entry point of the library
(builder sessions of every version with and without all metrics, the command-line tool, the text
scanner, Red Hat notation, JSON output in its four shapes, hashing and comparing, rejected input).

Half of the fresh-fork tasks of every sweep (chosen by a CRC of the task's argument, so that a
replay of the task makes the same choice) run this history before their own work: every property
is then decided both from the initial state of the process and from a state that other entry
points have been through. Whatever the history returns or raises is dropped: how those entry
points behave is the business of their own checks; here they only put the process in the state a
long-running consumer is in.
"""

import json
import zlib

from .ref import tables as T

V2 = "AV:N/AC:L/Au:N/C:P/I:P/A:C/E:F/RL:OF/RC:C/CDP:LM/TD:H/CR:M/IR:H/AR:L"
V2S = "AV:L/AC:M/Au:S/C:N/I:P/A:N"
V3B = "AV:N/AC:L/PR:N/UI:N/S:U/C:H/I:H/A:H"
V3F = V3B + "/E:P/RL:T/RC:R/CR:H/IR:M/AR:L/MAV:A/MAC:H/MPR:L/MUI:R/MS:C/MC:L/MI:N/MA:H"
V4B = "CVSS:4.0/AV:N/AC:L/AT:N/PR:N/UI:N/VC:H/VI:H/VA:H/SC:N/SI:N/SA:N"
V4F = V4B + "/E:P/CR:H/IR:M/AR:L/MAV:A/MAC:H/MAT:P/MPR:L/MUI:P/MVC:L/MVI:N/MVA:H/MSC:L/MSI:S/MSA:N" \
            "/S:P/AU:Y/R:I/V:C/RE:M/U:Amber"


def wanted(arg):
    """Deterministic coin per task argument."""
    try:
        blob = json.dumps(arg, sort_keys=True, default=str)
    except (TypeError, ValueError):
        blob = repr(arg)
    return bool(zlib.crc32(blob.encode("utf-8")) & 1)


def _first(fam):
    tab = T.METRICS[fam]
    return lambda m: [tab[m][0]]


def _last(fam):
    tab = T.METRICS[fam]
    return lambda m: ["?", tab[m][-1]]


def steps():
    import cvss
    from cvss.parser import parse_cvss_from_text
    from . import cli, dialogue, observe

    out = []
    for fam in T.FAMILIES:
        for allm in (True, False):
            out.append(lambda fam=fam, allm=allm: dialogue.run_builder(fam, allm, True, {}, _first(fam)))
        out.append(lambda fam=fam: dialogue.run_builder(fam, True, False, {}, _last(fam)))
    vec = {"2": [V2, V2S], "3.0": ["CVSS:3.0/" + V3B, "CVSS:3.0/" + V3F],
           "3.1": ["CVSS:3.1/" + V3B, "CVSS:3.1/" + V3F], "4.0": [V4B, V4F]}

    def api(fam, v):
        cls = observe.cls_of(fam)
        o = cls(v)
        observe.observation(fam, o)
        for sort in (False, True):
            for minimal in (False, True):
                o.as_json(sort=sort, minimal=minimal)
        p = cls.from_rh_vector(o.rh_vector())
        s = set([o, p, cls(o.clean_vector())])
        return o == p, o != p, len(s), hash(o)

    for fam in T.FAMILIES:
        for v in vec[fam]:
            out.append(lambda fam=fam, v=v: api(fam, v))
    out.append(lambda: parse_cvss_from_text(
        "first %s, then (CVSS:3.1/%s) and CVSS:3.0/%s; again %s." % (V2, V3F, V3B, V2)))
    for bad in ("AV:N/AC:L/Au:N/C:P/I:P/A:C/AV:N", "CVSS:3.1/AV:N/AC:L", "CVSS:3.1/" + V3B + "/MA:Q",
                V4B + "/ZZ:1", "CVSS:4.0/AV:P", "9.9/" + V2S, ""):
        for c in (cvss.CVSS2, cvss.CVSS3, cvss.CVSS4):
            out.append(lambda c=c, bad=bad: c(bad))
            out.append(lambda c=c, bad=bad: c.from_rh_vector(bad))
    out.append(lambda: cli.run_main(["-3", "-v", "CVSS:3.1/" + V3F], ""))
    out.append(lambda: cli.run_main(["-2", "-j", "-v", V2], ""))
    out.append(lambda: cli.run_main(["-4", "-j", "-v", V4F], ""))
    out.append(lambda: cli.run_main(["-4", "-a", "-n"], "N\nL\n"))
    return out


def run():
    n = 0
    for s in steps():
        try:
            s()
        except BaseException:  # noqa - dropped on purpose, see the module text
            pass
        n += 1
    return n
