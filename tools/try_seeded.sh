#!/bin/sh
# tools/try_seeded.sh <seeded id> <check> [tier]: run one check against one seeded change, full output
id=$1; chk=$2; tier=${3:-quick}
wt=/tmp/ev/try-$id
git -C /repo worktree remove --force $wt 2>/dev/null; rm -rf $wt $wt.out
git -C /repo worktree add -q --detach $wt HEAD || exit 2
(cd $wt && git apply /verif/seeded/$id/patch.diff) || exit 2
mkdir -p $wt.out
cd /verif && VERIF_REPO=$wt VERIF_EVIDENCE_DIR=$wt.out VERIF_REPLAY_DIR=$wt.out ./vcheck $chk --tier $tier
echo "rc=$?"
git -C /repo worktree remove --force $wt; rm -rf $wt.out
