#!/usr/bin/env python3
"""Regenerates the generated tables of DESIGN.md in place: the seeded-change table (10.5), the table of
behaviour-preserving changes (10.5b) and the as-built table (10.7)."""
import re, subprocess, sys
p = "/verif/DESIGN.md"
s = open(p).read()

def run(tool):
    return subprocess.check_output([sys.executable, "/verif/tools/" + tool]).decode()

# 10.5: table starts at the header row and ends before the next heading
hdr = "| id | property | change | needs | confirmed (suite 34/34, demo fails/passes) | caught by (quick tier) |"
i = s.index(hdr)
j = s.index("\n### ", i)
s = s[:i] + run("seeded_table.py").rstrip("\n") + "\n" + s[j:]
# 10.5b
m = re.search(r"### 10\.5b[^\n]*\n", s)
if m:
    i = s.index("| id | change | suite 34/34 | checks run | verdict |", m.end())
    j = s.index("\n### ", i)
    s = s[:i] + run("benign_table.py").rstrip("\n") + "\n" + s[j:]
# 10.7
m = re.search(r"### 10\.7[^\n]*\n", s)
i = s.index("| id | engine | bound of the quick tier", m.end())
j = s.find("\n\n", i)
tail = s[j:] if j >= 0 else ""
s = s[:i] + run("asbuilt_table.py").rstrip("\n") + tail
open(p, "w").write(s)
print("refreshed")
