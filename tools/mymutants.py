#!/usr/bin/env python3
"""
Hand-written mutants (the "Catches" lists of DESIGN.md): each is (name, property, file, old, new).
For every mutant: scratch worktree of /repo HEAD, edit applied, pinned suite must keep its 34 passes
(otherwise the mutant is recorded as 'killed by the suite' and not counted), then the property's
check (quick tier; `--thorough` adds the thorough tier for those the quick tier missed) runs with
VERIF_REPO pointing at the worktree. Results: mutants/results.json.

  tools/mymutants.py [--only name,...] [--thorough] [--jobs N]
"""
import json
import os
import shutil
import subprocess
import sys
import time
from concurrent.futures import ThreadPoolExecutor

VERIF = os.path.dirname(os.path.dirname(os.path.abspath(__file__)))
sys.path.insert(0, os.path.join(VERIF, "tools"))
import seeded  # noqa

M = []


def mut(name, prop, file, old, new, count=1):
    M.append(dict(name=name, prop=prop, file=file, old=old, new=new, count=count))


# ---- C01
mut("c01_cap_0915", "C01", "cvss/cvss3.py", 'D("0.915"),\n        )', 'D("0.95"),\n        )')
mut("c01_pr_scope_mix", "C01", "cvss/cvss3.py", 'abbreviation == "MPR" and self.modified_scope == "C"', 'abbreviation == "MPR" and self.scope == "C"')
mut("c01_31_exponent", "C01", "cvss/cvss3.py", ') ** D("13")', ') ** D("15")')
mut("c01_roundup_halfup", "C01", "cvss/cvss3.py", "return value.quantize(D(\"0.1\"), rounding=ROUND_CEILING)", "from decimal import ROUND_HALF_UP\n    return value.quantize(D(\"0.1\"), rounding=ROUND_HALF_UP)")
mut("c01_weight_rl_t", "C01", "cvss/constants3.py", '"T": D("0.96"), "O": D("0.95")', '"T": D("0.95"), "O": D("0.95")')
mut("c01_ms_x_ignored", "C01", "cvss/cvss3.py", 'if self.modified_scope in [None, "X"]:', 'if self.modified_scope in [None]:')
# ---- C02
mut("c02_lookup_entry", "C02", "cvss/constants4.py", '("101121", 5),', '("101121", 5.1),')
mut("c02_depth", "C02", "cvss/constants4.py", "(1, OrderedDict([(0, 8), (1, 8)]))", "(1, OrderedDict([(0, 8), (1, 7)]))")
mut("c02_maxvec", "C02", "cvss/constants4.py", '"VC:H/VI:L/VA:L/CR:M/IR:H/AR:H/",', '"VC:H/VI:L/VA:L/CR:M/IR:H/AR:M/",')
mut("c02_epsilon", "C02", "cvss/constants4.py", "EPSILON = 10**-6", "EPSILON = 0.0")
mut("c02_cr_default", "C02", "cvss/cvss4.py", 'if metric == "IR" and selected == "X":\n            return "H"', 'if metric == "IR" and selected == "X":\n            return "M"')
mut("c02_half_even", "C02", "cvss/cvss4.py", "quantize(D(\"0.1\"), rounding=ROUND_HALF_UP))", "quantize(D(\"0.1\"), rounding=\"ROUND_HALF_EVEN\"))")
mut("c02_eq3eq6_lower", "C02", "cvss/cvss4.py", "score_eq3eq6_next_lower_macro = max(\n                score_eq3eq6_next_lower_macro_left, score_eq3eq6_next_lower_macro_right\n            )", "score_eq3eq6_next_lower_macro = min(\n                score_eq3eq6_next_lower_macro_left, score_eq3eq6_next_lower_macro_right\n            )")
# ---- C03
mut("c03_151", "C03", "cvss/constants2.py", '"CR": {"L": D("0.5"), "M": D("1"), "H": D("1.51"), "ND": D("1")},', '"CR": {"L": D("0.5"), "M": D("1"), "H": D("1.5"), "ND": D("1")},')
mut("c03_half_even", "C03", "cvss/cvss2.py", "return value.quantize(D(\"0.1\"), rounding=ROUND_HALF_UP)", "return value.quantize(D(\"0.1\"), rounding=\"ROUND_HALF_EVEN\")")
mut("c03_adjusted_from_clamped", "C03", "cvss/cvss2.py", "base_score = self.base_score_equation(adjusted_impact=True)", "base_score = max(D(\"0.0\"), self.base_score_equation(adjusted_impact=True))")
mut("c03_none_on_absent_only", "C03", "cvss/cvss2.py", 'if all(self.metrics.get(a, "ND") == "ND" for a in ENVIRONMENTAL_METRICS):', 'if all(a not in self.metrics for a in ENVIRONMENTAL_METRICS):')
mut("c03_min10", "C03", "cvss/cvss2.py", "        return min(\n            D(\"10\"),\n            D(\"10.41\")", "        return min(\n            D(\"10.41\"),\n            D(\"10.41\")")
# ---- C04
mut("c04_dup_same_value_ok", "C04", "cvss/cvss3.py", "                    if metric in self.metrics:\n                        raise CVSS3MalformedError('Duplicate metric \"{0}\"'.format(metric))", "                    if metric in self.metrics and self.metrics[metric] != value:\n                        raise CVSS3MalformedError('Duplicate metric \"{0}\"'.format(metric))")
mut("c04_strip", "C04", "cvss/cvss2.py", "        self.vector = vector\n        self.metrics = {}", "        self.vector = vector.strip()\n        self.metrics = {}")
mut("c04_prefix_startswith", "C04", "cvss/cvss4.py", 'if not self.vector.startswith("CVSS:4.0/"):', 'if not self.vector.startswith("CVSS:4."):')
mut("c04_v4_keyerror", "C04", "cvss/cvss4.py", "            if metric not in METRICS_VALUE_NAMES:\n                raise CVSS4MalformedError('Invalid metric key in CVSS4 vector \"{0}\"'.format(field))\n", "            if metric not in METRICS_VALUE_NAMES and metric.isupper():\n                raise CVSS4MalformedError('Invalid metric key in CVSS4 vector \"{0}\"'.format(field))\n")
mut("c04_mandatory_class", "C04", "cvss/cvss2.py", "raise CVSS2MandatoryError('Missing mandatory metrics", "raise CVSS2MalformedError('Missing mandatory metrics")
# ---- C05
mut("c05_scope_while_parsing", "C05", "cvss/cvss3.py", "                    self.metrics[metric] = value\n                else:\n                    raise CVSS3MalformedError(\n                        'Unknown value", "                    self.metrics[metric] = value\n                    if metric == \"PR\":\n                        self._pr_scope = self.metrics.get(\"S\")\n                else:\n                    raise CVSS3MalformedError(\n                        'Unknown value")
mut("c05_hash_raw", "C05", "cvss/cvss4.py", "        return hash(self.clean_vector())", "        return hash(self.vector)")
mut("c05_x_kept_for_e", "C05", "cvss/cvss3.py", "                if value != \"X\":\n                    vector.append(\"{0}:{1}\".format(metric, value))\n        if output_prefix:\n            prefix = \"CVSS:3.{0}/\"", "                if value != \"X\" or metric == \"MS\":\n                    vector.append(\"{0}:{1}\".format(metric, value))\n        if output_prefix:\n            prefix = \"CVSS:3.{0}/\"")
# ---- C06
mut("c06_supplemental_in_score", "C06", "cvss/cvss4.py", 'if self.m("E") == "A":\n            eq5 = "0"', 'if self.m("E") == "A" and self.metrics.get("AU") != "N":\n            eq5 = "0"\n        elif self.m("E") == "A":\n            eq5 = "1"')
mut("c06_base_after_override", "C06", "cvss/cvss3.py", '* self.get_value("MUI")\n        )', '* self.get_value("UI" if self.metrics.get("MAV") == "P" else "MUI")\n        )')
# ---- C07
mut("c07_eq_ignores_minor", "C07", "cvss/cvss3.py", "            return self.clean_vector() == o.clean_vector()", "            return self.clean_vector(output_prefix=False) == o.clean_vector(output_prefix=False)")
mut("c07_eq_other_class", "C07", "cvss/cvss2.py", "        if isinstance(o, CVSS2):\n            return self.clean_vector() == o.clean_vector()\n        return False", "        if hasattr(o, \"clean_vector\"):\n            return self.clean_vector() == o.clean_vector()\n        return False")
# ---- C08
mut("c08_v2_order", "C08", "cvss/constants2.py", '        ("CDP", "Collateral Damage Potential"),\n        ("TD", "Target Distribution"),', '        ("TD", "Target Distribution"),\n        ("CDP", "Collateral Damage Potential"),')
mut("c08_v4_order", "C08", "cvss/constants4.py", '        ("E", "Exploit Maturity"),\n        ("CR", "Confidentiality Req."),', '        ("CR", "Confidentiality Req."),\n        ("E", "Exploit Maturity"),')
# ---- C09
mut("c09_threshold_89", "C09", "cvss/cvss3.py", 'elif score <= D("8.9"):', 'elif score < D("8.9"):')
mut("c09_v4_threshold", "C09", "cvss/cvss4.py", "elif self.base_score <= 6.9:", "elif self.base_score <= 7.0:")
mut("c09_v2_none_low", "C09", "cvss/cvss2.py", '            if score is None:\n                severities.append("None")', '            if score is None:\n                severities.append("Low")')
# ---- C10 / C11
mut("c10_enum_typo", "C10", "cvss/constants3.py", '("T", "Temporary Fix"),', '("T", "Temporary-Fix "),')
mut("c11_vectorstring_clean", "C11", "cvss/cvss3.py", '            "vectorString": self.vector,', '            "vectorString": self.clean_vector(),')
mut("c11_modified_not_inherited", "C11", "cvss/cvss4.py", '        for metric in METRICS:\n            add_metric_to_data(metric)', '        for metric in METRICS:\n            add_metric_to_data(metric)\n        if self.original_metrics.get("MAT", "X") == "X":\n            data[METRICS_ABBREVIATIONS_JSON["MAT"]] = "NOT_DEFINED"')
mut("c11_minimal_drops_defined", "C11", "cvss/cvss3.py", "if not minimal or any(metric in self.original_metrics for metric in ENVIRONMENTAL_METRICS):", "if not minimal or any(metric in self.original_metrics for metric in ENVIRONMENTAL_METRICS[:-1]):")
# ---- C12
mut("c12_tolerance", "C12", "cvss/cvss3.py", "        if cvss_object.scores()[0] == score_value:", "        if abs(cvss_object.scores()[0] - score_value) < 0.05:")
mut("c12_temporal_compare", "C12", "cvss/cvss2.py", "        if cvss_object.scores()[0] == score_value:", "        if score_value in cvss_object.scores():")
# ---- C13
mut("c13_min_27", "C13", "cvss/parser.py", "{26,}", "{27,}")
mut("c13_only_31", "C13", "cvss/parser.py", r"(?:CVSS:3\.\d/)?", r"(?:CVSS:3\.1/)?")
# ---- C14 (a monotonicity break that C02's model also sees)
mut("c14_lookup_inversion", "C14", "cvss/constants4.py", '("212121", 0.5),', '("212121", 1.3),')
# ---- C15
mut("c15_order", "C15", "cvss/constants3.py", 'ENVIRONMENTAL_METRICS = ["CR", "IR", "AR", "MAV", "MAC", "MPR", "MUI", "MS", "MC", "MI", "MA"]', 'ENVIRONMENTAL_METRICS = ["CR", "IR", "AR", "MAV", "MAC", "MPR", "MUI", "MC", "MS", "MI", "MA"]')
# ---- C16
mut("c16_empty_mandatory", "C16", "cvss/interactive.py", "            if not input_value:\n                if version == 2:", "            if not input_value and metric == \"UI\":\n                input_value = values[0] if isinstance(values, list) else list(values)[0]\n            if not input_value:\n                if version == 2:")
mut("c16_prefix_30", "C16", "cvss/interactive.py", '        vector_string = "CVSS:3.0/" + "/".join(vector)', '        vector_string = "CVSS:3.1/" + "/".join(vector)')
# ---- C17
mut("c17_zero_score_omitted", "C17", "cvss/cvss_calculator.py", "                if score:\n                    print(score_name", "                if score and score[0]:\n                    print(score_name")
# ---- C18
mut("c18_accessor_pops", "C18", "cvss/cvss2.py", "        return \"/\".join(\n            [metric + \":\" + self.metrics.get(metric, \"ND\") for metric in TEMPORAL_METRICS]\n        )", "        return \"/\".join(\n            [metric + \":\" + self.metrics.setdefault(metric, \"ND\") for metric in TEMPORAL_METRICS]\n        )")
# ---- C19
mut("c19_class_level_metrics", "C19", "cvss/cvss4.py", "        self.vector = vector\n        self.metrics = {}\n        self.missing_metrics = []", "        self.vector = vector\n        self.metrics.clear()\n        self.missing_metrics = []")
mut("c19_context_rounding", "C19", "cvss/cvss3.py", "    return value.quantize(D(\"0.1\"), rounding=ROUND_CEILING)", "    import decimal\n    decimal.getcontext().rounding = ROUND_CEILING\n    return value.quantize(D(\"0.1\"))")
mut("c19_stray_print", "C19", "cvss/cvss2.py", "            raise CVSS2MalformedError('Malformed CVSS2 vector, trailing \"/\"')", "            print(\"trailing slash\")\n            raise CVSS2MalformedError('Malformed CVSS2 vector, trailing \"/\"')")
# ---- C20
mut("c20_fstring", "C20", "cvss/cvss3.py", "'Duplicate metric \"{0}\"'.format(metric)", "f'Duplicate metric \"{metric}\"'")
mut("c20_round_builtin", "C20", "cvss/cvss4.py", "    return float(D(x + EPSILON).quantize(D(\"0.1\"), rounding=ROUND_HALF_UP))", "    return round(x + EPSILON, 1)")

EXTRA = {"c19_class_level_metrics": ("cvss/cvss4.py", "class CVSS4(object):\n    \"\"\"\n    Class to hold CVSS4 vector, parsed values, and all scores.\n    \"\"\"\n",
                                     "class CVSS4(object):\n    \"\"\"\n    Class to hold CVSS4 vector, parsed values, and all scores.\n    \"\"\"\n\n    metrics = {}\n")}


def run_one(m, thorough):
    name = m["name"]
    wt = "/tmp/ev/mm_" + name
    scratch = wt + ".out"
    seeded.sh("git -C /repo worktree remove --force %s" % wt)
    shutil.rmtree(wt, ignore_errors=True)
    rc, out = seeded.sh("git -C /repo worktree add -q --detach %s HEAD" % wt)
    res = {"name": name, "property": m["prop"]}
    try:
        edits = [(m["file"], m["old"], m["new"])]
        if name in EXTRA:
            edits.append(EXTRA[name])
        for file, old, new in edits:
            p = os.path.join(wt, file)
            s = open(p).read()
            if s.count(old) < 1:
                res["error"] = "pattern not found in %s" % file
                return res
            open(p, "w").write(s.replace(old, new, 1))
        rc, out = seeded.sh("/venv/bin/python -c 'import sys; sys.path.insert(0, \"%s\"); import cvss'" % wt)
        res["imports"] = rc == 0
        ok, missing = seeded.tests_ok(wt)
        res["suite_keeps_34"] = ok
        if not ok:
            res["killed_by_suite"] = missing[:3]
        env = dict(os.environ, VERIF_REPO=wt, VERIF_EVIDENCE_DIR=os.path.join(scratch, "evidence"),
                   VERIF_REPLAY_DIR=os.path.join(scratch, "replays"))
        for tier in (["quick", "thorough"] if thorough else ["quick"]):
            t0 = time.time()
            rc, out = seeded.sh([os.path.join(VERIF, "vcheck"), m["prop"], "--tier", tier], cwd=VERIF, env=env)
            what = [l.strip() for l in out.splitlines() if l.strip().startswith("what:")]
            res[tier] = {"rc": rc, "first": what[0][:240] if what else out[-200:] if rc else "", "s": round(time.time() - t0, 1)}
            if rc == 1:
                break
    finally:
        seeded.sh("git -C /repo worktree remove --force %s" % wt)
        shutil.rmtree(wt, ignore_errors=True)
        shutil.rmtree(scratch, ignore_errors=True)
    return res


def main():
    args = sys.argv[1:]
    only = args[args.index("--only") + 1].split(",") if "--only" in args else None
    thorough = "--thorough" in args
    jobs = int(args[args.index("--jobs") + 1]) if "--jobs" in args else 3
    todo = [m for m in M if not only or m["name"] in only]
    os.makedirs("/tmp/ev", exist_ok=True)
    with ThreadPoolExecutor(jobs) as ex:
        results = list(ex.map(lambda m: run_one(m, thorough), todo))
    outp = os.path.join(VERIF, "mutants", "results.json")
    os.makedirs(os.path.dirname(outp), exist_ok=True)
    old = {}
    if os.path.exists(outp):
        old = dict((r["name"], r) for r in json.load(open(outp)))
    for r in results:
        old[r["name"]] = r
    json.dump(sorted(old.values(), key=lambda r: r["name"]), open(outp, "w"), indent=1, sort_keys=True)
    for r in results:
        q = r.get("quick", {})
        t = r.get("thorough", {})
        print("%-28s %s suite34=%s quick rc=%s %ss %s %s" % (r["name"], r["property"], r.get("suite_keeps_34"),
              q.get("rc"), q.get("s"), ("thorough rc=%s" % t.get("rc")) if t else "", r.get("error", "")))


if __name__ == "__main__":
    main()
