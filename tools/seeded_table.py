#!/usr/bin/env python3
"""Markdown table of the seeded changes and which checks catch them (from seeded/*/result.json)."""
import glob
import json
import os

rows = []
for d in sorted(glob.glob("/verif/seeded/*/")):
    name = os.path.basename(d.rstrip("/"))
    meta = json.load(open(d + "meta.json"))
    res = json.load(open(d + "result.json")) if os.path.exists(d + "result.json") else {}
    caught = ", ".join(res.get("caught_by", [])) or "-"
    ok = "yes" if res.get("tests_still_pass") and res.get("demo_fails_with_change") and res.get("demo_passes_clean") else "NO"
    rows.append("| %s | %s | %s | %s | %s | %s |" % (
        name, meta["property"], meta.get("summary", "").replace("|", "/")[:150],
        meta.get("needs", "").replace("|", "/")[:130], ok, caught + (" (" + res.get("note") + ")" if res.get("note") else "")))
print("| id | property | change | needs | confirmed (suite 34/34, demo fails/passes) | caught by (quick tier) |")
print("|---|---|---|---|---|---|")
print("\n".join(rows))
