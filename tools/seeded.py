#!/usr/bin/env python3
"""
Evaluate one seeded change:  tools/seeded.py <dir with patch.diff demo.py meta.json> [--checks C01,C05 | --all] [--tier quick]

 1. scratch worktree of /repo HEAD under /tmp/ev/<name>, patch applied;
 2. the pinned test suite must still give the 34 baseline passes;
 3. the demo must fail on the changed tree and pass on /repo;
 4. the selected checks run with VERIF_REPO=<worktree> (evidence/replays redirected to a scratch dir);
 5. the worktree is removed. Prints a JSON summary and writes it to <dir>/result.json.
"""
import json
import os
import shutil
import subprocess
import sys
import time

VERIF = os.path.dirname(os.path.dirname(os.path.abspath(__file__)))
BASE = json.load(open("/root/.vp/BASELINE.json"))["stable_pass"]


def sh(cmd, cwd=None, env=None, timeout=3600):
    p = subprocess.run(cmd, shell=isinstance(cmd, str), cwd=cwd, env=env, stdout=subprocess.PIPE,
                       stderr=subprocess.STDOUT, timeout=timeout)
    return p.returncode, p.stdout.decode("utf-8", "replace")


def tests_ok(tree):
    xml = os.path.join(tree, "_junit.xml")
    sh("/venv/bin/python -m pytest -q -p no:cacheprovider --timeout=900 --junitxml=%s tests" % xml, cwd=tree)
    import xml.etree.ElementTree as ET
    passed = set()
    for tc in ET.parse(xml).getroot().iter("testcase"):
        if not list(tc):
            passed.add("%s::%s" % (tc.get("classname"), tc.get("name")))
    os.remove(xml)
    want = set(b for b in BASE)
    return want <= passed, sorted(want - passed)


def main():
    d = os.path.abspath(sys.argv[1])
    args = sys.argv[2:]
    tier = "quick"
    checks = None
    if "--tier" in args:
        tier = args[args.index("--tier") + 1]
    if "--all" in args:
        checks = ["C%02d" % i for i in range(1, 21)]
    if "--checks" in args:
        checks = args[args.index("--checks") + 1].split(",")
    meta = json.load(open(os.path.join(d, "meta.json")))
    if checks is None:
        checks = [meta["property"]]
    name = os.path.basename(d)
    wt = "/tmp/ev/" + name
    scratch = "/tmp/ev/" + name + ".out"
    os.makedirs("/tmp/ev", exist_ok=True)
    sh("git -C /repo worktree remove --force %s" % wt)
    shutil.rmtree(wt, ignore_errors=True)
    shutil.rmtree(scratch, ignore_errors=True)
    rc, out = sh("git -C /repo worktree add -q --detach %s HEAD" % wt)
    assert rc == 0, out
    res = {"name": name, "property": meta["property"], "tier": tier}
    try:
        rc, out = sh("git apply %s" % os.path.join(d, "patch.diff"), cwd=wt)
        res["applies"] = rc == 0
        if rc != 0:
            res["apply_error"] = out[-500:]
            return res
        ok, missing = tests_ok(wt)
        res["tests_still_pass"] = ok
        res["tests_missing"] = missing
        demo = os.path.join(d, "demo.py")
        py = meta.get("demo_python", "/venv/bin/python")
        rc1, o1 = sh([py, demo, wt], cwd="/tmp")
        rc0, o0 = sh([py, demo, "/repo"], cwd="/tmp")
        res["demo_fails_with_change"] = rc1 != 0
        res["demo_passes_clean"] = rc0 == 0
        res["demo_output_with_change"] = o1[-600:]
        env = dict(os.environ, VERIF_REPO=wt, VERIF_EVIDENCE_DIR=os.path.join(scratch, "evidence"),
                   VERIF_REPLAY_DIR=os.path.join(scratch, "replays"))
        res["checks"] = {}
        for c in checks:
            t0 = time.time()
            rc, out = sh([os.path.join(VERIF, "vcheck"), c, "--tier", tier], cwd=VERIF, env=env)
            viol = [l for l in out.splitlines() if l.startswith("VIOLATION")]
            what = [l.strip() for l in out.splitlines() if l.strip().startswith("what:")]
            res["checks"][c] = {"rc": rc, "violations": len(viol), "first": (what[0][:300] if what else ""),
                                "s": round(time.time() - t0, 1)}
        res["caught_by"] = sorted(c for c, v in res["checks"].items() if v["rc"] == 1)
    finally:
        sh("git -C /repo worktree remove --force %s" % wt)
        shutil.rmtree(wt, ignore_errors=True)
        shutil.rmtree(scratch, ignore_errors=True)
        with open(os.path.join(d, "result.json"), "w") as f:
            json.dump(res, f, indent=1, sort_keys=True)
        print(json.dumps(res, indent=1, sort_keys=True))
    return res


if __name__ == "__main__":
    main()
