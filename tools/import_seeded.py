#!/usr/bin/env python3
"""Copy sub-agent deliverables /tmp/sa/<ID>/out/{patchN.diff,demoN.py,metaN.json} to /verif/seeded/<ID>-N/."""
import json, os, shutil, sys
for pid in sys.argv[1:]:
    src = "/tmp/sa/%s/out" % pid
    for n in (1, 2, 3, 4):
        p = os.path.join(src, "patch%d.diff" % n)
        if not os.path.exists(p):
            continue
        dst = "/verif/seeded/%s-%d" % (pid, n)
        os.makedirs(dst, exist_ok=True)
        shutil.copy(p, os.path.join(dst, "patch.diff"))
        shutil.copy(os.path.join(src, "demo%d.py" % n), os.path.join(dst, "demo.py"))
        meta = json.load(open(os.path.join(src, "meta%d.json" % n)))
        meta["property"] = pid[-3:]
        meta["origin"] = "independent sub-agent given only the property text and a scratch worktree"
        json.dump(meta, open(os.path.join(dst, "meta.json"), "w"), indent=1, sort_keys=True)
        print(dst, "-", meta.get("summary", "")[:110])
