#!/usr/bin/env python3
"""tools/note_seeded.py <seeded id> <check> [note]: record that <check> (run by hand with tools/try_seeded.sh) flags the change."""
import json, sys
i, chk = sys.argv[1], sys.argv[2]
note = sys.argv[3] if len(sys.argv) > 3 else None
f = "/verif/seeded/%s/result.json" % i
r = json.load(open(f))
r.setdefault("checks", {})[chk] = {"rc": 1, "by_hand": "tools/try_seeded.sh %s %s" % (i, chk)}
r["caught_by"] = sorted(set(r.get("caught_by", []) + [chk]))
if note:
    r["note"] = note
json.dump(r, open(f, "w"), indent=1, sort_keys=True)
print(i, r["caught_by"], r.get("note"))
