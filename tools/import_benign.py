#!/usr/bin/env python3
"""Copy sub-agent deliverables /tmp/sa/<ID>/out/{patchN.diff,metaN.json,equivN.py} to /verif/benign/<ID>-N/."""
import json, os, shutil, sys
for pid in sys.argv[1:]:
    src = "/tmp/sa/%s/out" % pid
    for n in (1, 2, 3, 4, 5):
        p = os.path.join(src, "patch%d.diff" % n)
        if not os.path.exists(p):
            continue
        dst = "/verif/benign/%s-%d" % (pid, n)
        os.makedirs(dst, exist_ok=True)
        shutil.copy(p, os.path.join(dst, "patch.diff"))
        e = os.path.join(src, "equiv%d.py" % n)
        if os.path.exists(e):
            shutil.copy(e, os.path.join(dst, "equiv.py"))
        try:
            meta = json.load(open(os.path.join(src, "meta%d.json" % n)))
        except Exception as ex:  # noqa
            meta = {"summary": "meta unreadable: %s" % ex}
        meta["origin"] = "independent sub-agent given the 20 property statements and a scratch worktree; asked for a behaviour-preserving change"
        json.dump(meta, open(os.path.join(dst, "meta.json"), "w"), indent=1, sort_keys=True)
        print(dst, "-", str(meta.get("summary", ""))[:110])
