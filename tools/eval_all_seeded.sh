#!/bin/sh
# usage: tools/eval_all_seeded.sh [jobs] [extra args for seeded.py, default --all] ; evaluates every seeded/<id> lacking result.json
cd "$(dirname "$0")/.." || exit 2
jobs=${1:-2}; shift
args=${*:---all}
ls -d seeded/*/ | while read d; do [ -f "$d/result.json" ] || echo "$d"; done | \
  xargs -P "$jobs" -I{} sh -c "python3 tools/seeded.py {} $args > {}/eval.log 2>&1; echo done {}"
