#!/usr/bin/env python3
"""Markdown table of the behaviour-preserving changes and the verdict of the checks (from benign/*/result.json)."""
import glob, json, os
combo_of = {}
for d in sorted(glob.glob("/verif/benign/COMBO*/")):
    name = os.path.basename(d.rstrip("/"))
    meta = json.load(open(d + "meta.json"))
    res = json.load(open(d + "result.json")) if os.path.exists(d + "result.json") else None
    if os.path.exists(d + "first_pass.json"):      # checks that had exited 0 in an interrupted first pass
        fp = json.load(open(d + "first_pass.json"))["first_pass"]["silent_checks"]
        res = res or {"checks": {}, "tests_still_pass": True, "alarms": [], "harness_errors": []}
        for c in fp:
            res["checks"].setdefault(c, {"rc": 0, "first_pass": True})
    for m in meta.get("members", []):
        combo_of.setdefault(m, []).append((name, res))
print("| id | change | suite 34/34 | checks run | verdict |")
print("|---|---|---|---|---|")
for d in sorted(glob.glob("/verif/benign/*/")):
    name = os.path.basename(d.rstrip("/"))
    if name.startswith("COMBO"):
        continue
    meta = json.load(open(d + "meta.json"))
    res = json.load(open(d + "result.json")) if os.path.exists(d + "result.json") else None
    runs = []
    if res and res.get("checks"):
        runs.append(("alone", res))
    for cname, cres in combo_of.get(name, []):
        if cres and cres.get("checks"):
            runs.append(("in " + cname, cres))
    if not runs:
        verdict, what, ok = "not evaluated (time)", "-", "-"
    else:
        parts, verd = [], []
        ok = "yes" if all(r.get("tests_still_pass") for _, r in runs) else "NO"
        for how, r in runs:
            n = len(r["checks"])
            parts.append("%s: %s" % (how, "all 20" if n == 20 else ", ".join(sorted(r["checks"]))))
            bad = (r.get("alarms") or []) + (r.get("harness_errors") or [])
            verd.append("silent" if not bad else "ALARM " + ", ".join(bad))
        what, verdict = "; ".join(parts), "; ".join(verd)
    print("| %s | %s | %s | %s | %s |" % (name, str(meta.get("summary", "")).replace("|", "/").replace("\n", " ")[:170], ok, what, verdict))
