#!/usr/bin/env python3
"""Markdown table: per property, what the quick run on /repo covered (from evidence/*.json + registry)."""
import json, os, sys
sys.path.insert(0, os.path.dirname(os.path.dirname(os.path.abspath(__file__))))
from vf import registry
print("| id | engine | bound of the quick tier (from the evidence file) | states | transitions | compared with model/oracle |")
print("|---|---|---|---|---|---|")
for pid in sorted(registry.CHECKS):
    ev = json.load(open("/verif/evidence/%s.json" % pid))
    c = ev["coverage"]
    print("| %s | %s | %s | %s | %s | %s |" % (pid, registry.CHECKS[pid]["engine"], str(c.get("bound", "")).replace("|", "/")[:330],
          "{:,}".format(c["states"]), "{:,}".format(c["transitions"]), "{:,}".format(c["traces_validated_against_impl"])))
