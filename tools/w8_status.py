#!/usr/bin/env python3
import json, glob, os, sys
pre = sys.argv[1] if len(sys.argv) > 1 else "W8"
for d in sorted(glob.glob("/verif/seeded/%s*/" % pre)):
    f = d + "result.json"
    if not os.path.exists(f):
        print(os.path.basename(d[:-1]), "pending"); continue
    r = json.load(open(f))
    flags = []
    if not r.get("tests_still_pass"): flags.append("TESTS-CHANGED")
    if not r.get("demo_fails_with_change"): flags.append("DEMO-DOES-NOT-FAIL")
    if not r.get("demo_passes_clean"): flags.append("DEMO-FAILS-CLEAN")
    print(r["name"], "caught_by", r.get("caught_by"), {c: v["rc"] for c, v in r.get("checks", {}).items()}, " ".join(flags))
