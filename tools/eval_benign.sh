#!/bin/sh
# usage: tools/eval_benign.sh [jobs] [args for benign.py, e.g. --auto]; evaluates every benign/<id> lacking result.json
cd "$(dirname "$0")/.." || exit 2
jobs=${1:-2}; shift
args=$*
ls -d benign/*/ | while read d; do [ -f "$d/result.json" ] || [ -f "$d/eval.log" ] || echo "$d"; done | \
  xargs -P "$jobs" -I{} sh -c "python3 tools/benign.py {} $args > {}/eval.log 2>&1; tail -3 {}/eval.log"
