#!/usr/bin/env python3
"""
Evaluate one behaviour-preserving change:  tools/benign.py <dir with patch.diff meta.json> [--checks C01,C05] [--tier quick]

 1. scratch worktree of /repo HEAD under /tmp/ev/<name>, patch applied;
 2. the pinned test suite must still give the 34 baseline passes;
 3. every selected check (default: all 20) runs with VERIF_REPO=<worktree>; evidence/replays go to a scratch dir;
    rc 0 = silent (wanted), rc 1 = alarm (a false alarm unless the change does break the property - to be
    judged by hand and recorded in meta.json "verdict"), rc 2 = harness error (a harness defect either way);
 4. the worktree is removed. Writes <dir>/result.json.
"""
import json
import os
import shutil
import sys
import time

sys.path.insert(0, os.path.dirname(os.path.abspath(__file__)))
from seeded import sh, tests_ok, VERIF  # noqa: E402


def auto_checks(patch):
    """The checks whose subject the patch touches (first pass when many changes are queued; the full set
    is the default)."""
    files = set()
    for ln in open(patch):
        if ln.startswith("+++ b/"):
            files.add(ln[6:].strip())
    sel = set()
    for f in files:
        if f.endswith("interactive.py"):
            sel |= set(["C08", "C16", "C17", "C19", "C20"])
        elif f.endswith("cvss_calculator.py") or f.endswith("__main__.py"):
            sel |= set(["C17", "C19", "C20"])
        elif f.endswith("parser.py"):
            sel |= set(["C13", "C19", "C20", "C04"])
        elif f.endswith("exceptions.py") or f.endswith("__init__.py"):
            sel |= set(["C04", "C12", "C17", "C20"])
        else:
            sel |= set("C%02d" % i for i in range(1, 21))
    return sorted(sel)


def main():
    d = os.path.abspath(sys.argv[1])
    args = sys.argv[2:]
    tier = args[args.index("--tier") + 1] if "--tier" in args else "quick"
    # all twenty; the ones that look at representation, processes, threads and text first (an
    # interrupted evaluation has then judged what a behaviour-preserving change is most likely to upset)
    checks = ["C19", "C18", "C17", "C16", "C20", "C08", "C04", "C07", "C13", "C12", "C05", "C06", "C10", "C11",
              "C15", "C09", "C14", "C01", "C02", "C03"]
    if "--checks" in args:
        checks = args[args.index("--checks") + 1].split(",")
    if "--auto" in args:
        checks = auto_checks(os.path.join(d, "patch.diff"))
    name = os.path.basename(d)
    wt = "/tmp/ev/" + name
    scratch = "/tmp/ev/" + name + ".out"
    os.makedirs("/tmp/ev", exist_ok=True)
    sh("git -C /repo worktree remove --force %s" % wt)
    shutil.rmtree(wt, ignore_errors=True)
    shutil.rmtree(scratch, ignore_errors=True)
    rc, out = sh("git -C /repo worktree add -q --detach %s HEAD" % wt)
    assert rc == 0, out
    res = {"name": name, "tier": tier, "kind": "behaviour-preserving"}
    try:
        rc, out = sh("git apply %s" % os.path.join(d, "patch.diff"), cwd=wt)
        res["applies"] = rc == 0
        if rc != 0:
            res["apply_error"] = out[-500:]
            return res
        ok, missing = tests_ok(wt)
        res["tests_still_pass"] = ok
        res["tests_missing"] = missing
        env = dict(os.environ, VERIF_REPO=wt, VERIF_EVIDENCE_DIR=os.path.join(scratch, "evidence"),
                   VERIF_REPLAY_DIR=os.path.join(scratch, "replays"))
        res["checks"] = {}
        for c in checks:
            t0 = time.time()
            rc, out = sh([os.path.join(VERIF, "vcheck"), c, "--tier", tier], cwd=VERIF, env=env)
            viol = [l for l in out.splitlines() if l.startswith("VIOLATION")]
            what = [l.strip() for l in out.splitlines() if l.strip().startswith("what:")]
            res["checks"][c] = {"rc": rc, "violations": len(viol), "s": round(time.time() - t0, 1)}
            if rc != 0:
                res["checks"][c]["first"] = what[0][:600] if what else out[-600:]
                with open(os.path.join(d, "alarm_%s.log" % c), "w") as f:
                    f.write(out[-20000:])
            # partial results survive an interrupted evaluation
            res["alarms"] = sorted(k for k, v in res["checks"].items() if v["rc"] == 1)
            res["harness_errors"] = sorted(k for k, v in res["checks"].items() if v["rc"] not in (0, 1))
            res["silent"] = not res["alarms"] and not res["harness_errors"]
            res["complete"] = len(res["checks"]) == len(checks)
            with open(os.path.join(d, "result.json"), "w") as f:
                json.dump(res, f, indent=1, sort_keys=True)
        res["alarms"] = sorted(c for c, v in res["checks"].items() if v["rc"] == 1)
        res["harness_errors"] = sorted(c for c, v in res["checks"].items() if v["rc"] not in (0, 1))
        res["silent"] = not res["alarms"] and not res["harness_errors"]
    finally:
        sh("git -C /repo worktree remove --force %s" % wt)
        shutil.rmtree(wt, ignore_errors=True)
        shutil.rmtree(scratch, ignore_errors=True)
        with open(os.path.join(d, "result.json"), "w") as f:
            json.dump(res, f, indent=1, sort_keys=True)
        print(json.dumps({k: res.get(k) for k in ("name", "applies", "tests_still_pass", "alarms", "harness_errors", "silent")},
                         sort_keys=True))
        for c in res.get("alarms", []) + res.get("harness_errors", []):
            print("  ", c, res["checks"][c].get("first", "")[:400])
    return res


if __name__ == "__main__":
    main()
