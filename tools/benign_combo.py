#!/usr/bin/env python3
"""
tools/benign_combo.py <combo name> <benign id> ...   - pack behaviour-preserving changes that touch disjoint
code into one tree (greedy: each patch that still applies on top of the previous ones joins), so that one run of
all checks judges several changes at once. A silent run clears every member; an alarm is bisected by hand
(tools/benign.py on the members). Writes benign/<combo name>/{patch.diff,meta.json}.
"""
import json, os, subprocess, sys
name, ids = sys.argv[1], sys.argv[2:]
wt = "/tmp/ev/combo-" + name
subprocess.call("git -C /repo worktree remove --force %s 2>/dev/null; rm -rf %s" % (wt, wt), shell=True)
subprocess.check_call("git -C /repo worktree add -q --detach %s HEAD" % wt, shell=True)
members, skipped = [], []
for i in ids:
    p = "/verif/benign/%s/patch.diff" % i
    if subprocess.call("git apply --check %s 2>/dev/null" % p, shell=True, cwd=wt) == 0:
        subprocess.check_call("git apply %s" % p, shell=True, cwd=wt)
        members.append(i)
    else:
        skipped.append(i)
dst = "/verif/benign/" + name
os.makedirs(dst, exist_ok=True)
subprocess.check_call("git add -A -N . && git diff > %s/patch.diff" % dst, shell=True, cwd=wt)
json.dump({"summary": "combination of behaviour-preserving changes that touch disjoint code", "members": members,
           "origin": "tools/benign_combo.py"}, open(dst + "/meta.json", "w"), indent=1)
subprocess.call("git -C /repo worktree remove --force %s" % wt, shell=True)
print("members:", " ".join(members)); print("skipped:", " ".join(skipped))
