#!/bin/sh
# evaluates every seeded/<id> lacking result.json against its own property's check only
cd "$(dirname "$0")/.." || exit 2
jobs=${1:-2}
ls -d seeded/*/ | while read d; do [ -f "$d/result.json" ] || echo "$d"; done | \
  xargs -P "$jobs" -I{} sh -c 'p=$(python3 -c "import json;print(json.load(open(\"{}/meta.json\"))[\"property\"])"); python3 tools/seeded.py {} --checks $p > {}/eval.log 2>&1; echo done {}'
