#!/usr/bin/env python3
"""Writes /verif/MANIFEST.json from vf/registry.py (+ NOT_APPLICABLE below)."""
import json
import os
import sys

HERE = os.path.dirname(os.path.dirname(os.path.abspath(__file__)))
sys.path.insert(0, HERE)
from vf import registry  # noqa

ALL = ["C%02d" % i for i in range(1, 21)]
NOT_YET = "check not built yet in this round (planned: DESIGN.md section 8); no claim is made"

checks = []
for pid in ALL:
    m = registry.CHECKS.get(pid)
    if not m:
        continue
    checks.append({
        "property_id": pid,
        "quick_cmd": "./vcheck %s --tier quick" % pid,
        "thorough_cmd": "./vcheck %s --tier thorough" % pid,
        "evidence_file": "/verif/evidence/%s.json" % pid,
        "replay_cmd_template": "./vcheck %s --replay {path}" % pid,
        "engine": m["engine"],
        "level_claimed": {"category": "model_checking", "text": m["text"],
                          "design_ref": m["design_ref"]},
        "level_note": m["note"],
        "technique": m["technique"],
    })
man = {
    "version": 1,
    "setup_cmd": "/venv/bin/python -m vf.selftest",
    "hooks": {
        "guard": "CVSS_VERIF",
        "enable": "no hooks: every observation point is public API, vars(obj), module globals, "
                  "sys.settrace and sys.argv/stdin/stdout; checks import the tree from $VERIF_REPO "
                  "(default /repo)",
        "baseline_off_cmd": "cd /repo && /venv/bin/python -m pytest -ra -q -p no:cacheprovider "
                            "--timeout=900 --continue-on-collection-errors",
        "source_commits": [],
        "add_only": True,
    },
    "engines": [
        {"name": "E1 product sweep", "path": "vf/engine/product.py",
         "serves_properties": [p for p in ALL if registry.CHECKS.get(p, {}).get("engine", "").startswith("E1")],
         "kind_free_text": "exhaustive mixed-radix product enumeration on the real classes, fork pool"},
    ],
    "checks": checks,
    "notes": "All checks are bounded exhaustive explorations on the real code (explicit-state model "
             "checking); see DESIGN.md.",
    "not_applicable": [{"property_id": p, "reason": NOT_YET} for p in ALL
                       if p not in registry.CHECKS],
}
with open(os.path.join(HERE, "MANIFEST.json"), "w") as f:
    json.dump(man, f, indent=1)
    f.write("\n")
print("MANIFEST.json: %d checks, %d not_applicable" % (len(checks), len(man["not_applicable"])))
