#!/usr/bin/env python3
"""Writes /verif/MANIFEST.json from vf/registry.py (+ NOT_APPLICABLE below)."""
import json
import os
import sys

HERE = os.path.dirname(os.path.dirname(os.path.abspath(__file__)))
sys.path.insert(0, HERE)
from vf import registry  # noqa

ALL = ["C%02d" % i for i in range(1, 21)]
NOT_YET = "check not built yet in this round (planned: DESIGN.md section 8); no claim is made"

checks = []
for pid in ALL:
    m = registry.CHECKS.get(pid)
    if not m:
        continue
    checks.append({
        "property_id": pid,
        "quick_cmd": "./vcheck %s --tier quick" % pid,
        "thorough_cmd": "./vcheck %s --tier thorough" % pid,
        "evidence_file": "/verif/evidence/%s.json" % pid,
        "replay_cmd_template": "./vcheck %s --replay {path}" % pid,
        "engine": m["engine"],
        "level_claimed": {"category": "model_checking", "text": m["text"],
                          "design_ref": m["design_ref"]},
        "level_note": m["note"],
        "technique": m["technique"],
    })
man = {
    "version": 1,
    "setup_cmd": "/venv/bin/python -m vf.selftest",
    "hooks": {
        "guard": "CVSS_VERIF",
        "enable": "no hooks: every observation point is public API, vars(obj), module globals, "
                  "sys.settrace and sys.argv/stdin/stdout; checks import the tree from $VERIF_REPO "
                  "(default /repo)",
        "baseline_off_cmd": "cd /repo && /venv/bin/python -m pytest -ra -q -p no:cacheprovider "
                            "--timeout=900 --continue-on-collection-errors",
        "source_commits": [],
        "add_only": True,
    },
    "engines": [
        {"name": "E1 product sweep", "path": "vf/engine/product.py",
         "serves_properties": [p for p in ALL if "E1" in registry.CHECKS.get(p, {}).get("engine", "")],
         "kind_free_text": "exhaustive mixed-radix product enumeration on the real classes; every task in a "
                           "fresh fork; v3.0/v3.1 twin evaluation; task-level replay"},
        {"name": "E2 rewrite BFS", "path": "vf/engine/rewrite.py",
         "serves_properties": [p for p in ALL if "E2" in registry.CHECKS.get(p, {}).get("engine", "")],
         "kind_free_text": "level-synchronous BFS over string rewrite graphs, dedup on the string"},
        {"name": "E3 operation-sequence exploration", "path": "vf/engine/opseq.py",
         "serves_properties": [p for p in ALL if "E3" in registry.CHECKS.get(p, {}).get("engine", "")],
         "kind_free_text": "BFS over operation histories on real objects / processes with canonical state "
                           "snapshots; exhaustive enumeration of answer scripts, command lines, token texts"},
        {"name": "E4 thread schedule explorer", "path": "vf/engine/sched.py",
         "serves_properties": ["C19"],
         "kind_free_text": "sys.settrace + baton scheduler for real threads; iterative preemption bounding at "
                           "line / call / opcode granularity; warm, cold-process and shared-object groups"},
        {"name": "E5 configuration matrix", "path": "vf/engine/config.py",
         "serves_properties": ["C19", "C20"],
         "kind_free_text": "self-enumerating probe program under interpreter x hash seed x decimal context; "
                           "chunk digests compared with the reference configuration"},
    ],
    "checks": checks,
    "notes": "All checks are bounded exhaustive explorations on the real code (explicit-state model "
             "checking); see DESIGN.md.",
    "not_applicable": [{"property_id": p, "reason": NOT_YET} for p in ALL
                       if p not in registry.CHECKS],
}
with open(os.path.join(HERE, "MANIFEST.json"), "w") as f:
    json.dump(man, f, indent=1)
    f.write("\n")
print("MANIFEST.json: %d checks, %d not_applicable" % (len(checks), len(man["not_applicable"])))
