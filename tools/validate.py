#!/opt/veriftools/pyvenv/bin/python
"""Validates MANIFEST.json and every evidence/*.json against the harness schemas."""
import glob
import json
import sys

import jsonschema

ok = True
man = json.load(open("/verif/MANIFEST.json"))
jsonschema.validate(man, json.load(open("/root/.vp/MANIFEST.schema.json")))
ev_schema = json.load(open("/root/.vp/EVIDENCE.schema.json"))
claimed = set(c["property_id"] for c in man["checks"])
na = set(x["property_id"] for x in man.get("not_applicable", []))
allp = set(json.loads(l)["id"] for l in open("/verif/properties.jsonl"))
if claimed | na != allp or claimed & na:
    print("MANIFEST does not partition the properties:", sorted(allp - claimed - na), sorted(claimed & na))
    ok = False
for c in man["checks"]:
    path = c["evidence_file"]
    try:
        ev = json.load(open(path))
        jsonschema.validate(ev, ev_schema)
        cov = ev["coverage"]
        if ev["level"] != c["level_claimed"]["category"]:
            print(path, "level mismatch")
            ok = False
        print("%s %-8s states=%-10s transitions=%-11s validated=%-10s samples=%d wall=%.0fs viol=%s tree=%s" % (
            ev["property_id"], ev["tier"], cov.get("states"), cov.get("transitions"),
            cov.get("traces_validated_against_impl"), len(cov.get("samples", [])), ev["wall_s"],
            ev.get("violations"), ev.get("tree")))
    except Exception as e:  # noqa
        print(path, "INVALID:", str(e)[:200])
        ok = False
print("OK" if ok else "PROBLEMS")
sys.exit(0 if ok else 1)
